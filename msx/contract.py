"""Environment contract (DESIGN §4): summaries for std / lsm-tree / OS callees.

Every rule is `(regex on the turbofish-stripped callee, function(ex, st, call))`.  A summary returns either a
value (single continuation), a list of (state, value) continuations, or NotImplemented (fall through to
inlining / havoc).  Each summary that stands for an observable environment step emits an event.
Fallible environment calls return a `Result` whose discriminant is a fresh Bool *fault variable*.
"""
import re
import z3
from .symex import (Obj, EnumV, Ref, Cell, Ev, FnItem, deref, bv, base_name, generic_args, strip_ref, short_ty,
                    ExecError, strip_turbofish, parse_qualified)

RULES = []


def rule(*patterns, prio=0):
    def deco(f):
        for p in patterns:
            RULES.append((re.compile(p), f, prio))
        RULES.sort(key=lambda r: -r[2])     # stable: specific rules (prio 0) before generic fallbacks (prio < 0)
        return f
    return deco


def as_bv64(v):
    if z3.is_bv(v) and v.size() != 64:
        return z3.ZeroExt(64 - v.size(), v) if v.size() < 64 else z3.Extract(63, 0, v)
    return v


class Contract:
    def __init__(self, overrides=None, disabled_faults=()):
        self.cache = {}
        self.generic = {}
        self.overrides = [(re.compile(p), f) for p, f in (overrides or [])]
        self.disabled_faults = set(disabled_faults)   # fault kinds that never fire (healthy-environment assumptions)

    def lookup(self, c0, callee):
        f = self.cache.get(c0, 0)
        if f != 0:
            return f
        f = None
        for pat, fn, *rest in self.overrides + RULES:
            if pat.search(c0):
                f = fn
                self.generic[c0] = bool(rest) and rest[0] < 0
                break
        self.cache[c0] = f
        return f

    def is_generic(self, c0):
        """was the matching rule a generic fallback (prio < 0)?  fjall's own impls take precedence over those"""
        return self.generic.get(c0, False)

    # ---- helpers used by the executor
    def const_value(self, ex, st, text):
        t = text.strip()
        if t.endswith('PRE_ALLOCATED_BYTES'):
            return bv(64 * 1024 * 1024)
        if t.endswith('JOURNAL_BUFFER_BYTES'):
            return bv(8 * 1024)
        m = re.fullmatch(r'(?:lsm_tree::)?(?:SeqNo|u64)::MAX|core::num::<impl u64>::MAX|std::u64::MAX', t)
        if m:
            return bv(2 ** 64 - 1)
        if t.endswith('::MAX') and ('SeqNo' in t or 'u64' in t):
            return bv(2 ** 64 - 1)
        for nm, val in (('LEVELED_COMPACTION_NAME', 'LeveledCompaction'), ('FIFO_COMPACTION_NAME', 'FifoCompaction')):
            if t.endswith(nm):
                o = Obj('str', 'str:' + val, 'str'); o.data['str'] = val
                return Ref(Cell(o))
        return None

    def length_of(self, ex, st, o):
        if 'len' in o.data:
            ln = o.data['len']
            return bv(ln) if isinstance(ln, int) else ln
        if 'items' in o.data:
            return bv(len(o.data['items']))
        ln = o.data.get('symlen')
        if ln is None:
            ln = z3.BitVec(f'len_{o.name}!{next(st.fresh)}', 64)
            o.data['symlen'] = ln
        return ln

    def drop_guard(self, ex, st, g, kind):
        m = g.data.get('lock')
        st.emit(Ev('UNLOCK', obj=m, args={'guard': kind}))
        if isinstance(m, Obj):
            m.data['held'] = False

    def fault(self, ex, st, kind):
        if kind in self.disabled_faults:
            return z3.BoolVal(False)
        f = z3.Bool(f'fault!{next(st.fresh)}:{kind}')
        st.faults.append((kind, f, len(st.events)))
        return f


# =============================================================================== plumbing
def arc_inner_cell(ex, st, a, elem_ty=None):
    """cell holding the pointee of an Arc/Box/Rc-like object (shared between clones)"""
    c = a.fields.get('ptr')
    if c is None:
        ga = generic_args(a.ty)
        ty = elem_ty or (ga[0] if ga else '')
        c = Cell(ex.fresh(st, ty, a.name + '→'))
        a.fields['ptr'] = c
    return c


@rule(r'^<(Arc|Box|Rc|std::sync::Arc|std::boxed::Box)<.*> as Deref(Mut)?>::deref(_mut)?$')
def s_arc_deref(ex, st, call):
    a = deref(call.args[0])
    if not isinstance(a, Obj):
        return NotImplemented
    return Ref(arc_inner_cell(ex, st, a))


@rule(r'^Arc::new$', r'^Box::new$', r'^Rc::new$')
def s_arc_new(ex, st, call):
    o = Obj(call.dst_ty, 'arc', 'struct')
    o.fields['ptr'] = Cell(call.args[0])
    return o


@rule(r'^<(Arc|Rc)<.*> as Clone>::clone$', r'^<SequenceNumberCounter as Clone>::clone$',
      r'^<flume::Sender<.*> as Clone>::clone$', r'^<flume::Receiver<.*> as Clone>::clone$')
def s_arc_clone(ex, st, call):
    a = deref(call.args[0])
    if not isinstance(a, Obj):
        return NotImplemented
    n = Obj(a.ty, a.name, a.kind)
    n.fields['ptr'] = arc_inner_cell(ex, st, a)
    n.data = a.data          # shared abstract state (same underlying object)
    return n


@rule(r'^<std::sync::(MutexGuard|RwLockReadGuard|RwLockWriteGuard)<.*> as Deref(Mut)?>::deref(_mut)?$')
def s_guard_deref(ex, st, call):
    g = deref(call.args[0])
    c = g.data.get('inner')
    if c is None:
        ga = generic_args(g.ty)
        c = Cell(ex.fresh(st, ga[-1] if ga else '', g.name + '*')); g.data['inner'] = c
    return Ref(c)


@rule(r'^<(PathBuf|String|std::path::PathBuf|std::string::String|lsm_tree::Slice|Slice|StrView|byteview::StrView|ByteView) as (Deref|AsRef<.*>|Borrow<.*>)>::(deref|as_ref|borrow)$',
      r'^<(&)?(Path|str|\[u8\]|std::path::Path) as AsRef<.*>>::as_ref$',
      r'^<&(mut )?.* as (Deref|AsRef<.*>|Borrow<.*>)>::(deref|as_ref|borrow)$')
def s_view(ex, st, call):
    """views of owned byte/str/path containers keep the identity of the container"""
    a = call.args[0]
    if isinstance(a, Ref):
        inner = a.cell.val
        if isinstance(inner, Ref):          # & &T
            return inner
        return a
    return NotImplemented


@rule(r'^<Vec<.*> as (Deref|DerefMut|AsRef<.*>|Borrow<.*>)>::(deref|deref_mut|as_ref|borrow)$',
      r'^Vec::as_slice$', r'^Vec::as_mut_slice$', r'^<\[.*\] as Index<RangeFull>>::index$',
      r'^<Vec<.*> as Index<RangeFull>>::index$', r'^core::array::<impl .*>::as_slice$')
def s_vec_deref(ex, st, call):
    a = call.args[0]
    if isinstance(a, Ref) and isinstance(a.cell.val, Obj):
        v = a.cell.val
        return Ref(a.cell, ex.contract.length_of(ex, st, v))
    return NotImplemented


@rule(r'^<(K|V|P|N|R|S|T|impl .*?|&.*?) as (AsRef|Borrow)<.*>>::(as_ref|borrow)$', prio=-1)
def s_generic_asref(ex, st, call):
    a = call.args[0]
    if isinstance(a, Ref):
        inner = a.cell.val
        if isinstance(inner, Ref):
            return inner
        return a
    # by-value generic (K: AsRef<[u8]> taken by value and borrowed through a temp)
    return Ref(Cell(a))


@rule(r'^<.* as (Into|From)<.*>>::(into|from)$', prio=-1)
def s_into(ex, st, call):
    """conversions: fjall's own From impls are inlined (resolve first); byte-string conversions keep identity"""
    q = parse_qualified(call.c0)
    if q:
        selfty, trait, method, _ = q
        fn, sty = ex.resolve(call.callee, call.frame)
        if fn is not None:
            return NotImplemented
        tgt = generic_args(trait)[0] if generic_args(trait) else ''
        if method == 'into' and tgt:
            # blanket impl: <A as Into<B>>::into  ==  <B as From<A>>::from
            alt = f'<{tgt} as From<{selfty}>>::from'
            fn, sty = ex.resolve(alt, call.frame)
            if fn is not None:
                return list(ex.call_fn(st, fn, call.args, sty))
        src_b, tgt_b = base_name(selfty), base_name(tgt)
        if method == 'from':
            src_b, tgt_b = tgt_b, base_name(selfty)
        # identity-preserving conversions between byte-string-like / path-like / error types
        v = call.args[0]
        bytes_like = {'Slice', 'K', 'V', 'Vec', 'String', 'str', 'StrView', 'ByteView', 'PathBuf', 'Path', 'P', 'N', 'Cow', 'Box', 'Arc', 'UserKey', 'UserValue', 'KeyspaceKey'}
        if src_b == tgt_b or tgt_b in bytes_like or src_b in bytes_like or src_b.startswith('[') or selfty.startswith(('&', '[')):
            tag = deref(v)
            if isinstance(tag, Obj) and tgt_b in ('Slice', 'UserKey', 'UserValue', 'StrView', 'KeyspaceKey'):
                tag.data.setdefault('converted_to', tgt_b)
            if isinstance(v, Ref) and tgt_b in ('Slice', 'Vec', 'String', 'PathBuf', 'StrView', 'ByteView', 'Box'):
                return v.cell.val if isinstance(v.cell.val, (Obj, EnumV)) else v
            return v
        if isinstance(v, EnumV) or isinstance(v, Obj):
            # error conversions (lsm_tree::Error -> fjall::Error etc.): wrap, remembering the source
            o = Obj(call.dst_ty or tgt, 'conv', 'struct'); o.data['from'] = v
            vs = ex.src.enum_variants(o.ty)
            if vs:
                e = ex.to_enum(st, o)
                e.data['from'] = v
                return e
            return o
    return NotImplemented


@rule(r'^<.* as Try>::branch$')
def s_try_branch(ex, st, call):
    r = call.args[0]
    if isinstance(r, Obj):
        r = ex.to_enum(st, r)
    if not isinstance(r, EnumV):
        return NotImplemented
    b = base_name(r.ty)
    e = EnumV(call.dst_ty, r.disc, 'cf')
    if b == 'Option':
        # None(0) -> Break(1), Some(1) -> Continue(0)
        e.disc = (1 - r.disc) if isinstance(r.disc, int) else z3.If(r.disc == bv(1), bv(0), bv(1))
        if 'Some' in r.payloads:
            e.payloads['Continue'] = r.payloads['Some']
        res = ex.mk_enum('Option<Infallible>', 'None')
    else:
        if 'Ok' in r.payloads:
            e.payloads['Continue'] = r.payloads['Ok']
        res = EnumV('Result<Infallible, E>', 1, 'residual')
        if 'Err' in r.payloads:
            res.payloads['Err'] = r.payloads['Err']
        res.data['from_result'] = r
    br = Obj('Break', 'Break', 'variant'); br.fields[0] = Cell(res)
    e.payloads['Break'] = br
    return e


@rule(r'^<.* as FromResidual<.*>>::from_residual$')
def s_from_residual(ex, st, call):
    res = call.args[0]
    dst = call.dst_ty
    b = base_name(dst)
    if b == 'Option':
        return ex.mk_enum(dst, 'None')
    if not isinstance(res, EnumV):
        return NotImplemented
    q = parse_qualified(call.c0)
    errp = res.payloads.get('Err')
    errv = errp.fields[0].val if errp is not None and 0 in errp.fields else None
    dst_err = generic_args(dst)[1] if len(generic_args(dst)) > 1 else ''
    src_res = generic_args(q[1])[0] if q and q[1] and generic_args(q[1]) else ''
    src_err = generic_args(src_res)[1] if len(generic_args(src_res)) > 1 else ''
    if errv is None:
        errv = ex.fresh(st, src_err or dst_err, 'err')
    out = []
    if src_err and dst_err and base_name(src_err) != base_name(dst_err) or (src_err.strip() != dst_err.strip() and src_err and dst_err):
        conv = f'<{dst_err} as From<{src_err}>>::from'
        for s2, v in ex.do_call(st, call.depth, conv, [errv], dst_err):
            out.append((s2, ex.mk_enum(dst, 'Err', [v if v is not None else ex.fresh(s2, dst_err, 'err')])))
        return out
    return ex.mk_enum(dst, 'Err', [errv])


@rule(r'^<.* as Try>::from_output$')
def s_from_output(ex, st, call):
    b = base_name(call.dst_ty)
    return ex.mk_enum(call.dst_ty, 'Some' if b == 'Option' else 'Ok', [call.args[0]])


# ---- logging / formatting: empty bodies
@rule(r'^<Level as PartialOrd<LevelFilter>>::le$', r'^<log::Level as PartialOrd<log::LevelFilter>>::le$')
def s_log_disabled(ex, st, call):
    return z3.BoolVal(False)


@rule(r'^(log::)?max_level$', r'^log::__private_api::', r'^(core::fmt::rt::)?Argument::', r'^Arguments::',
      r'^core::fmt::', r'^std::fmt::', r'^alloc::fmt::', r'^format$', r'^std::io::_print$', r'^Path::display$',
      r'^<.* as (Debug|Display)>::fmt$', r'^Formatter::', r'^std::io::_eprint$')
def s_fmt(ex, st, call):
    r = ex.fresh(st, call.dst_ty, 'fmt')
    # formatting has an empty body, but the formatted scalars stay attached (file names are built with format!)
    vals = []

    def collect(v, depth=0):
        if depth > 4 or len(vals) > 16:
            return
        v = deref(v)
        if z3.is_expr(v):
            vals.append(v)
        elif isinstance(v, Obj):
            vals.extend(v.data.get('fmt_args', []))
            if v.kind in ('array', 'tuple') or 'items' in v.data:
                for c in list(v.fields.values())[:8] + list(v.data.get('items', []))[:8]:
                    collect(c.val, depth + 1)
    for a in call.args:
        collect(a)
    if vals and isinstance(r, Obj):
        r.data['fmt_args'] = vals
    return r


@rule(r'^(std::)?panicking$', r'^std::thread::panicking$')
def s_panicking(ex, st, call):
    return z3.BoolVal(False)


@rule(r'^(core::panicking::|std::rt::)?(panic|panic_fmt|begin_panic|panic_display|unreachable_display|panic_explicit|panic_nounwind)$',
      r'^core::panicking::', r'^std::rt::panic', r'^(core::option::|core::result::)?(expect_failed|unwrap_failed)$',
      r'^std::process::(abort|exit)$')
def s_panic(ex, st, call):
    msg = ''
    for a in call.args:
        d = deref(a)
        if isinstance(d, Obj) and 'str' in d.data:
            msg = d.data['str']
    st.emit(Ev('PANIC', args={'msg': msg, 'callee': call.c0}, site=call.site))
    st.status = 'panic'
    return [(st, None)]


# =============================================================================== Option / Result combinators
def _as_enum(ex, st, v):
    if isinstance(v, Obj):
        v = ex.to_enum(st, v)
    return v


def _payload(ex, st, e, var, ty_hint=''):
    o = e.payloads.get(var)
    if o is None:
        o = Obj(e.ty + '::' + var, f'{e.name}.{var}', 'variant'); e.payloads[var] = o
    c = o.fields.get(0)
    if c is None:
        ga = generic_args(e.ty)
        idx = {'Some': 0, 'Ok': 0, 'Err': 1}.get(var, 0)
        ty = ga[idx] if idx < len(ga) else ty_hint
        c = Cell(ex.fresh(st, ty, f'{e.name}.{var}.0')); o.fields[0] = c
    if c.val is None:
        ga = generic_args(e.ty)
        idx = {'Some': 0, 'Ok': 0, 'Err': 1}.get(var, 0)
        c.val = ex.fresh(st, ga[idx] if idx < len(ga) else ty_hint, f'{e.name}.{var}.0')
    return c.val


def _disc_is(e, d):
    if isinstance(e.disc, int):
        return z3.BoolVal(e.disc == d)
    return e.disc == bv(d)


def _fork_on(ex, st, e, d):
    """split the state on (disc == d); returns list of (state, enum_in_that_state, is_d)"""
    cond = _disc_is(e, d)
    c = z3.simplify(cond)
    if z3.is_true(c):
        return [(st, e, True)]
    if z3.is_false(c):
        return [(st, e, False)]
    yes = ex.feasible(st.pc, c)
    no = ex.feasible(st.pc, z3.Not(c))
    out = []
    if yes and no:
        s2, memo = st.clone()
        e2 = memo.get(id(e))
        if e2 is None:
            e2 = __import__('copy').deepcopy(e, memo)
        s2.pc.append(z3.Not(c))
        st.pc.append(c)
        out.append((st, e, True)); out.append((s2, e2, False))
    elif yes:
        st.pc.append(c); out.append((st, e, True))
    elif no:
        st.pc.append(z3.Not(c)); out.append((st, e, False))
    return out


def _memo_get(memo, v):
    return memo.get(id(v), v)


@rule(r'^(std::result::)?Result::map_err$', r'^(std::result::)?Result::inspect_err$', r'^(std::result::)?Result::or_else$')
def s_result_err_comb(ex, st, call):
    r = _as_enum(ex, st, call.args[0]); clo = call.args[1]
    kind = call.c0.rsplit('::', 1)[-1]
    out = []
    parts = _fork_err(ex, st, r, [clo])
    for s2, r2, is_err, (clo2,) in parts:
        if not is_err:
            if kind == 'map_err' or kind == 'or_else':
                n = EnumV(call.dst_ty, 0, 'res'); n.payloads = {'Ok': r2.payloads.get('Ok') or Obj('Ok', 'Ok', 'variant')}
                if 'Ok' not in r2.payloads:
                    _payload(ex, s2, r2, 'Ok'); n.payloads['Ok'] = r2.payloads['Ok']
                n.data = dict(r2.data)
                out.append((s2, n))
            else:
                out.append((s2, r2))
            continue
        errv = _payload(ex, s2, r2, 'Err')
        arg = Ref(Cell(errv)) if kind == 'inspect_err' else errv
        for s3, v in ex.call_closure(s2, clo2, [_tuple_args(ex, [arg])] if _needs_tuple(ex, clo2) else [arg]):
            if s3.status != 'running':
                out.append((s3, None)); continue
            if kind == 'inspect_err':
                r3 = r2 if s3 is s2 else _relocate(ex, s3, r2)
                out.append((s3, r3))
            elif kind == 'map_err':
                n = ex.mk_enum(call.dst_ty, 'Err', [v if v is not None else ex.fresh(s3, '', 'err')])
                n.data = dict(r2.data)
                out.append((s3, n))
            else:
                out.append((s3, v))
    return out


def _needs_tuple(ex, clo):
    return False


def _tuple_args(ex, args):
    o = Obj('(args)', 'args', 'tuple')
    for i, a in enumerate(args):
        o.fields[i] = Cell(a)
    return o


def _relocate(ex, st, v):
    """find the copy of value `v` inside forked state `st` (by uid for Obj; EnumV by name+ty is unreliable → keep)"""
    if isinstance(v, Obj):
        r = ex._find_obj(st, v.uid)
        return r if r is not None else v
    return v


def _fork_err(ex, st, r, extra):
    """split on Err; returns [(state, r_in_state, is_err, extra_in_state)]"""
    cond = _disc_is(r, 1)
    c = z3.simplify(cond)
    if z3.is_true(c):
        return [(st, r, True, extra)]
    if z3.is_false(c):
        return [(st, r, False, extra)]
    yes = ex.feasible(st.pc, c); no = ex.feasible(st.pc, z3.Not(c))
    if yes and no:
        # keep r/extra reachable from the state while cloning so the memo maps them
        holder = Obj('', 'holder'); holder.fields['r'] = Cell(r)
        for i, x in enumerate(extra):
            holder.fields[i] = Cell(x)
        st.globals['__holder'] = holder
        s2, memo = st.clone()
        h2 = s2.globals.pop('__holder'); st.globals.pop('__holder')
        r2 = h2.fields['r'].val; extra2 = [h2.fields[i].val for i in range(len(extra))]
        st.pc.append(c); s2.pc.append(z3.Not(c))
        return [(st, r, True, extra), (s2, r2, False, extra2)]
    if yes:
        st.pc.append(c); return [(st, r, True, extra)]
    st.pc.append(z3.Not(c)); return [(st, r, False, extra)]


def fork_cond(ex, st, cond, keep=()):
    """generic two-way fork on a Bool; `keep` are values to be re-located in the clone.
    returns [(state, bool_value, keep_values)]"""
    c = z3.simplify(cond)
    if z3.is_true(c):
        return [(st, True, list(keep))]
    if z3.is_false(c):
        return [(st, False, list(keep))]
    yes = ex.feasible(st.pc, c); no = ex.feasible(st.pc, z3.Not(c))
    if yes and no:
        holder = Obj('', 'holder')
        for i, x in enumerate(keep):
            holder.fields[i] = Cell(x)
        st.globals['__holder'] = holder
        s2, memo = st.clone()
        h2 = s2.globals.pop('__holder'); st.globals.pop('__holder')
        st.pc.append(c); s2.pc.append(z3.Not(c))
        return [(st, True, list(keep)), (s2, False, [h2.fields[i].val for i in range(len(keep))])]
    if yes:
        st.pc.append(c); return [(st, True, list(keep))]
    if no:
        st.pc.append(z3.Not(c)); return [(st, False, list(keep))]
    return []


def _pure_scalar_closure(ex, clo):
    """closure whose body is straight-line arithmetic/comparison (no calls, no branches, no drops): safe to evaluate without forking"""
    c = clo
    while isinstance(c, Ref):
        c = c.cell.val
    if not (isinstance(c, Obj) and c.kind == 'closure'):
        return False
    fn = ex.prog.closures.get(c.data.get('loc'))
    if fn is None:
        return False
    return all(t[0] in ('return', 'goto') for _s, t in fn.blocks.values())


@rule(r'^(std::result::)?Result::map$', r'^(std::result::)?Result::and_then$', r'^(std::result::)?Result::inspect$',
      r'^Option::map$', r'^Option::and_then$', r'^Option::inspect$', r'^Option::is_some_and$', r'^Option::filter$',
      r'^(std::result::)?Result::is_ok_and$', r'^Option::is_none_or$')
def s_ok_comb(ex, st, call):
    r = _as_enum(ex, st, call.args[0]); clo = call.args[1]
    kind = call.c0.rsplit('::', 1)[-1]
    is_opt = base_name(r.ty) == 'Option' or call.c0.startswith('Option')
    okd, okvar = (1, 'Some') if is_opt else (0, 'Ok')
    out = []
    if is_opt and kind in ('map', 'is_some_and', 'is_none_or') and isinstance(r, EnumV) and not isinstance(r.disc, int) \
            and 'Some' in r.payloads and z3.is_expr(r.payloads['Some'].fields[0].val) and _pure_scalar_closure(ex, clo):
        # no fork: the closure is a pure scalar function, so Option<T> stays one symbolic value
        n_ev = len(st.events); n_pc = len(st.pc)
        res = list(ex.call_closure(st, clo, [r.payloads['Some'].fields[0].val]))
        if len(res) == 1 and res[0][0] is st and st.status == 'running' and len(st.events) == n_ev and len(st.pc) == n_pc and z3.is_expr(res[0][1]):
            v = res[0][1]
            if kind == 'map':
                n = EnumV(call.dst_ty, r.disc, 'mapped')
                o = Obj('Some', 'Some', 'variant'); o.fields[0] = Cell(v); n.payloads['Some'] = o
                return n
            if kind == 'is_some_and':
                return z3.And(_disc_is(r, 1), v)
            return z3.Or(_disc_is(r, 0), v)
        return res if False else _ok_comb_fork_after_speculation(ex, st, call, res, r, kind)
    for s2, ok, (r2, clo2) in fork_cond(ex, st, _disc_is(r, okd), [r, clo]):
        if not ok:
            if kind in ('is_some_and', 'is_ok_and'):
                out.append((s2, z3.BoolVal(False)))
            elif kind == 'is_none_or':
                out.append((s2, z3.BoolVal(True)))
            elif is_opt:
                out.append((s2, ex.mk_enum(call.dst_ty, 'None')))
            else:
                if kind in ('inspect',):
                    out.append((s2, r2))
                else:
                    n = EnumV(call.dst_ty, 1, 'res')
                    _payload(ex, s2, r2, 'Err'); n.payloads['Err'] = r2.payloads['Err']; n.data = dict(r2.data)
                    out.append((s2, n))
            continue
        pv = _payload(ex, s2, r2, okvar)
        arg = Ref(Cell(pv)) if kind in ('inspect', 'filter') else pv
        for s3, v in ex.call_closure(s2, clo2, [arg]):
            if s3.status != 'running':
                out.append((s3, None)); continue
            if kind == 'map':
                n = ex.mk_enum(call.dst_ty, okvar, [v if v is not None else ex.fresh(s3, '', 'mapped')])
                n.data = dict(r2.data)
                out.append((s3, n))
            elif kind == 'and_then':
                out.append((s3, v))
            elif kind in ('is_some_and', 'is_ok_and', 'is_none_or'):
                out.append((s3, v))
            elif kind == 'filter':
                # keep if closure returned true
                r3 = r2 if s3 is s2 else r2
                if z3.is_bool(v):
                    e = EnumV(call.dst_ty, z3.If(v, bv(1), bv(0)), 'filtered'); e.payloads = dict(r3.payloads)
                    out.append((s3, e))
                else:
                    out.append((s3, ex.fresh(s3, call.dst_ty, 'filtered')))
            else:
                out.append((s3, r2))
    return out


def _ok_comb_fork_after_speculation(ex, st, call, res, r, kind):
    # the speculative evaluation had effects after all (cannot happen for closures accepted by _pure_scalar_closure)
    raise RuntimeError('pure closure evaluation had effects: ' + call.c0)


@rule(r'^(std::result::)?Result::(expect|unwrap)$', r'^Option::(expect|unwrap)$')
def s_unwrap(ex, st, call):
    r = _as_enum(ex, st, call.args[0])
    if not isinstance(r, EnumV):
        return NotImplemented
    is_opt = base_name(r.ty) == 'Option' or call.c0.startswith('Option')
    okd, okvar = (1, 'Some') if is_opt else (0, 'Ok')
    out = []
    for s2, ok, (r2,) in fork_cond(ex, st, _disc_is(r, okd), [r]):
        if ok:
            out.append((s2, _payload(ex, s2, r2, okvar, call.dst_ty)))
        else:
            msg = ''
            if len(call.args) > 1:
                d = deref(call.args[1])
                if isinstance(d, Obj):
                    msg = d.data.get('str', '')
            # a lock-poisoning `expect("lock is poisoned")` cannot fire (contract F3): LockResult is always Ok
            s2.emit(Ev('PANIC', args={'msg': msg, 'callee': call.c0}, site=call.site)); s2.status = 'panic'
            out.append((s2, None))
    return out


@rule(r'^(std::result::)?Result::(is_ok|is_err)$', r'^Option::(is_some|is_none)$')
def s_is(ex, st, call):
    r = _as_enum(ex, st, deref(call.args[0]))
    if not isinstance(r, EnumV):
        return NotImplemented
    kind = call.c0.rsplit('::', 1)[-1]
    d = {'is_ok': 0, 'is_err': 1, 'is_some': 1, 'is_none': 0}[kind]
    return _disc_is(r, d)


@rule(r'^(std::result::)?Result::ok$', r'^(std::result::)?Result::err$')
def s_result_ok(ex, st, call):
    r = _as_enum(ex, st, call.args[0])
    kind = call.c0.rsplit('::', 1)[-1]
    want = 0 if kind == 'ok' else 1
    e = EnumV(call.dst_ty, z3.If(_disc_is(r, want), bv(1), bv(0)) if not isinstance(r.disc, int) else int(r.disc == want), 'opt')
    var = 'Ok' if kind == 'ok' else 'Err'
    _payload(ex, st, r, var)
    e.payloads['Some'] = r.payloads[var]
    return e


@rule(r'^Option::ok_or$', r'^Option::ok_or_else$')
def s_ok_or(ex, st, call):
    r = _as_enum(ex, st, call.args[0])
    kind = call.c0.rsplit('::', 1)[-1]
    out = []
    for s2, some, (r2, other) in fork_cond(ex, st, _disc_is(r, 1), [r, call.args[1]]):
        if some:
            out.append((s2, ex.mk_enum(call.dst_ty, 'Ok', [_payload(ex, s2, r2, 'Some')])))
        elif kind == 'ok_or':
            out.append((s2, ex.mk_enum(call.dst_ty, 'Err', [other])))
        else:
            for s3, v in ex.call_closure(s2, other, []):
                out.append((s3, ex.mk_enum(call.dst_ty, 'Err', [v])) if s3.status == 'running' else (s3, None))
    return out


@rule(r'^Option::(unwrap_or_default|unwrap_or|unwrap_or_else)$', r'^(std::result::)?Result::(unwrap_or_default|unwrap_or|unwrap_or_else)$')
def s_unwrap_or(ex, st, call):
    r = _as_enum(ex, st, call.args[0])
    kind = call.c0.rsplit('::', 1)[-1]
    is_opt = base_name(r.ty) == 'Option' or call.c0.startswith('Option')
    okd, okvar = (1, 'Some') if is_opt else (0, 'Ok')
    out = []
    keep = [r] + list(call.args[1:])
    if is_opt and kind in ('unwrap_or_default', 'unwrap_or') and isinstance(r, EnumV) and not isinstance(r.disc, int) and 'Some' in r.payloads \
            and z3.is_bv(r.payloads['Some'].fields[0].val):
        pv = r.payloads['Some'].fields[0].val
        alt = call.args[1] if kind == 'unwrap_or' else z3.BitVecVal(0, pv.size())
        if z3.is_bv(alt) and alt.size() == pv.size():
            return z3.If(_disc_is(r, 1), pv, alt)
    for s2, ok, kept in fork_cond(ex, st, _disc_is(r, okd), keep):
        if ok:
            out.append((s2, _payload(ex, s2, kept[0], okvar, call.dst_ty)))
        elif kind == 'unwrap_or':
            out.append((s2, kept[1]))
        elif kind == 'unwrap_or_default':
            out.append((s2, default_value(ex, s2, call.dst_ty)))
        else:
            args = [] if is_opt else [_payload(ex, s2, kept[0], 'Err')]
            for s3, v in ex.call_closure(s2, kept[1], args):
                out.append((s3, v))
    return out


def default_value(ex, st, ty):
    ty = (ty or '').strip()
    from .mirparse import SCALAR_TYS
    if ty == 'bool':
        return z3.BoolVal(False)
    if ty in SCALAR_TYS:
        return z3.BitVecVal(0, SCALAR_TYS[ty])
    if base_name(ty) == 'Option':
        return ex.mk_enum(ty, 'None')
    return ex.fresh(st, ty, 'default')


@rule(r'^Option::(as_ref|as_mut|as_deref|as_deref_mut|cloned|copied)$', r'^(std::result::)?Result::(as_ref|as_mut)$',
      r'^<Option<.*> as Clone>::clone$', r'^<std::result::Result<.*> as Clone>::clone$')
def s_opt_view(ex, st, call):
    r = _as_enum(ex, st, deref(call.args[0]))
    if not isinstance(r, EnumV):
        return NotImplemented
    kind = call.c0.rsplit('::', 1)[-1]
    e = EnumV(call.dst_ty, r.disc, r.name)
    for var, o in r.payloads.items():
        n = Obj(o.ty, o.name, 'variant')
        for i, c in o.fields.items():
            if kind in ('as_ref', 'as_mut', 'as_deref', 'as_deref_mut'):
                n.fields[i] = Cell(Ref(c))
            elif kind in ('cloned', 'copied'):
                n.fields[i] = Cell(deref(c.val) if isinstance(c.val, Ref) else c.val)
            else:
                n.fields[i] = Cell(c.val)
        e.payloads[var] = n
    e.data = dict(r.data)
    if kind in ('as_ref', 'as_mut', 'as_deref', 'as_deref_mut'):
        # make sure the payload cells exist so that a later downcast reads through the reference
        for var in (['Some'] if base_name(r.ty) == 'Option' else ['Ok', 'Err']):
            if var not in r.payloads:
                pv = _payload(ex, st, r, var)
                n = Obj(r.ty + '::' + var, var, 'variant'); n.fields[0] = Cell(Ref(r.payloads[var].fields[0]))
                e.payloads[var] = n
    return e


@rule(r'^Option::take$', r'^std::mem::take$', r'^core::mem::take$', r'^std::mem::replace$', r'^core::mem::replace$')
def s_take(ex, st, call):
    r = call.args[0]
    if not isinstance(r, Ref):
        return NotImplemented
    old = r.cell.val
    if old is None:
        old = ex.fresh(st, call.dst_ty, 'taken')
    if call.c0.endswith('replace'):
        r.cell.val = call.args[1]
    elif call.c0.startswith('Option'):
        r.cell.val = ex.mk_enum(call.dst_ty, 'None')
    else:
        r.cell.val = empty_like(ex, st, old, call.dst_ty)
    return old


def empty_like(ex, st, old, ty):
    b = base_name(ty)
    if b in ('Vec', 'VecDeque'):
        o = Obj(ty, 'vec', 'seq'); o.data['items'] = []
        return o
    return default_value(ex, st, ty)


@rule(r'^std::mem::drop$', r'^core::mem::drop$', r'^drop$')
def s_mem_drop(ex, st, call):
    v = call.args[0]
    ga = generic_args('x' + call.callee[call.callee.index('::<'):]) if '::<' in call.callee else []
    ty = ga[0] if ga else (v.ty if isinstance(v, (Obj, EnumV)) else '')
    out = []
    for s2 in ex.drop_value(st, v, ty):
        out.append((s2, ex.unit()))
    return out


@rule(r'^std::mem::forget$', r'^core::mem::forget$')
def s_forget(ex, st, call):
    return ex.unit()


@rule(r'^core::num::<impl (u8|u16|u32|u64|usize|i32|i64)>::(saturating_sub|saturating_add|wrapping_add|wrapping_sub|min|max|is_multiple_of|pow|checked_add|checked_sub|abs_diff|to_le_bytes|to_be_bytes|from_le_bytes|from_be_bytes|leading_zeros|is_power_of_two|div_ceil|count_ones)$',
      r'^<(u8|u16|u32|u64|usize) as Ord>::(min|max)$', r'^std::cmp::(min|max)$', r'^<(u64|usize|u32|u16|u8) as Ord>::cmp$')
def s_num(ex, st, call):
    kind = call.c0.rsplit('::', 1)[-1]
    a = call.args[0]
    b = call.args[1] if len(call.args) > 1 else None
    if not z3.is_bv(a):
        return NotImplemented
    if kind == 'saturating_sub':
        return z3.If(z3.ULT(a, b), z3.BitVecVal(0, a.size()), a - b)
    if kind == 'saturating_add':
        s = a + b
        return z3.If(z3.ULT(s, a), z3.BitVecVal(2 ** a.size() - 1, a.size()), s)
    if kind == 'wrapping_add':
        return a + b
    if kind == 'wrapping_sub':
        return a - b
    if kind == 'min':
        return z3.If(z3.ULE(a, b), a, b)
    if kind == 'max':
        return z3.If(z3.UGE(a, b), a, b)
    if kind == 'is_multiple_of':
        return z3.If(b == 0, a == 0, z3.URem(a, b) == 0)
    if kind == 'abs_diff':
        return z3.If(z3.ULT(a, b), b - a, a - b)
    if kind == 'checked_add':
        s = a + b
        e = EnumV(call.dst_ty, z3.If(z3.ULT(s, a), bv(0), bv(1)), 'chk')
        o = Obj('Some', 'Some', 'variant'); o.fields[0] = Cell(s); e.payloads['Some'] = o
        return e
    if kind == 'checked_sub':
        e = EnumV(call.dst_ty, z3.If(z3.ULT(a, b), bv(0), bv(1)), 'chk')
        o = Obj('Some', 'Some', 'variant'); o.fields[0] = Cell(a - b); e.payloads['Some'] = o
        return e
    if kind in ('to_le_bytes', 'to_be_bytes'):
        o = Obj(call.dst_ty, 'bytes_of', 'bytes')
        o.data['segs'] = [(('le' if kind == 'to_le_bytes' else 'be') + str(a.size()), a)]
        o.data['len'] = a.size() // 8
        return o
    if kind == 'cmp':
        bb = deref(b); aa = deref(a)
        return EnumV('std::cmp::Ordering', z3.If(z3.ULT(aa, bb), bv(-1), z3.If(aa == bb, bv(0), bv(1))), 'ord')
    return NotImplemented


@rule(r'^<(u8|u16|u32|u64|usize|bool) as (From|Into)<(u8|u16|u32|bool|u64|usize)>>::(from|into)$')
def s_int_from(ex, st, call):
    from .mirparse import SCALAR_TYS
    v = call.args[0]
    w = SCALAR_TYS.get(call.dst_ty.strip())
    if z3.is_bool(v) and w:
        return z3.If(v, z3.BitVecVal(1, w), z3.BitVecVal(0, w))
    if z3.is_bv(v) and w:
        if w > v.size():
            return z3.ZeroExt(w - v.size(), v)
        if w == v.size():
            return v
    return NotImplemented


@rule(r'^<(u64|u32|u16|u8|usize|bool|\(\)) as Clone>::clone$', r'^<&.* as Clone>::clone$')
def s_copy_clone(ex, st, call):
    return deref(call.args[0]) if not call.c0.startswith('<&') else call.args[0].cell.val


@rule(r'^<(u64|u32|u16|u8|usize) as PartialEq>::(eq|ne)$', r'^<(u64|u32|u16|u8|usize) as PartialOrd>::(lt|le|gt|ge)$')
def s_int_cmp(ex, st, call):
    a, b = deref(call.args[0]), deref(call.args[1])
    k = call.c0.rsplit('::', 1)[-1]
    return {'eq': lambda: a == b, 'ne': lambda: a != b, 'lt': lambda: z3.ULT(a, b), 'le': lambda: z3.ULE(a, b),
            'gt': lambda: z3.UGT(a, b), 'ge': lambda: z3.UGE(a, b)}[k]()


# =============================================================================== atomics, locks, counters
def atomic_val(ex, st, a, ty_hint='u64'):
    v = a.data.get('val')
    if v is None:
        ga = generic_args(a.ty)
        t = ga[0] if ga else ty_hint
        b = base_name(a.ty)
        if b == 'AtomicBool':
            t = 'bool'
        elif b in ('AtomicU64', 'AtomicUsize'):
            t = 'u64'
        v = z3.Bool(f'pre:{a.name}') if t == 'bool' else z3.BitVec(f'pre:{a.name}', 64)
        a.data['val'] = v
        a.data['pre'] = v
    return v


@rule(r'^Atomic::(load|store|fetch_add|fetch_sub|fetch_max|fetch_min|swap|compare_exchange|fetch_or|fetch_and)$',
      r'^(std::sync::atomic::)?Atomic(Bool|U64|Usize|U32)::(load|store|fetch_add|fetch_sub|fetch_max|fetch_min|swap|compare_exchange|fetch_or|fetch_and)$')
def s_atomic(ex, st, call):
    a = deref(call.args[0])
    if not isinstance(a, Obj):
        return NotImplemented
    kind = call.c0.rsplit('::', 1)[-1]
    hint = 'bool' if 'bool' in call.callee.lower() else 'u64'
    cur = atomic_val(ex, st, a, hint)
    if kind == 'load':
        st.emit(Ev('ATOMIC_LOAD', obj=a, res=cur, site=call.site))
        return cur
    x = call.args[1]
    if z3.is_bv(x) and z3.is_bv(cur) and x.size() != cur.size():
        x = as_bv64(x)
    if kind == 'store':
        a.data['val'] = x
        st.emit(Ev('ATOMIC_STORE', obj=a, args={'val': x}, site=call.site))
        return ex.unit()
    if kind == 'swap':
        a.data['val'] = x
        st.emit(Ev('ATOMIC_STORE', obj=a, args={'val': x}, res=cur, site=call.site))
        return cur
    if kind == 'compare_exchange':
        new = call.args[2]
        ok = cur == x
        a.data['val'] = z3.If(ok, new, cur)
        st.emit(Ev('ATOMIC_CAS', obj=a, args={'expected': x, 'new': new}, res=cur, site=call.site))
        e = EnumV(call.dst_ty, z3.If(ok, bv(0), bv(1)), 'cas')
        o = Obj('Ok', 'Ok', 'variant'); o.fields[0] = Cell(cur); e.payloads['Ok'] = o
        o2 = Obj('Err', 'Err', 'variant'); o2.fields[0] = Cell(cur); e.payloads['Err'] = o2
        return e
    f = {'fetch_add': lambda: cur + x, 'fetch_sub': lambda: cur - x,
         'fetch_max': lambda: z3.If(z3.UGE(cur, x), cur, x), 'fetch_min': lambda: z3.If(z3.ULE(cur, x), cur, x),
         'fetch_or': lambda: z3.Or(cur, x) if z3.is_bool(cur) else cur | x,
         'fetch_and': lambda: z3.And(cur, x) if z3.is_bool(cur) else cur & x}[kind]
    a.data['val'] = f()
    st.emit(Ev('ATOMIC_' + kind.upper(), obj=a, args={'val': x}, res=cur, site=call.site))
    if z3.is_bv(cur):
        from .mirparse import SCALAR_TYS
        w = SCALAR_TYS.get(call.dst_ty.strip())
        if w and w != cur.size():
            return z3.Extract(w - 1, 0, cur) if w < cur.size() else z3.ZeroExt(w - cur.size(), cur)
    return cur


def counter_obj(ex, st, c):
    """SequenceNumberCounter handle -> the shared underlying counter object"""
    c = deref(c)
    if not isinstance(c, Obj):
        return None
    cell = c.fields.get('ptr')
    if cell is None:
        inner = Obj('AtomicU64', c.name + '→', 'opaque')
        cell = Cell(inner); c.fields['ptr'] = cell
    return cell.val


@rule(r'^SequenceNumberCounter::(next|get|set|fetch_max|new|default)$', r'^<SequenceNumberCounter as Default>::default$')
def s_seqno_counter(ex, st, call):
    kind = call.c0.rsplit('::', 1)[-1]
    if kind in ('new', 'default'):
        o = Obj('lsm_tree::SequenceNumberCounter', 'counter', 'struct')
        inner = Obj('AtomicU64', 'counter→', 'opaque')
        inner.data['val'] = as_bv64(call.args[0]) if (kind == 'new' and call.args) else bv(0)
        o.fields['ptr'] = Cell(inner)
        st.emit(Ev('CTR_NEW', obj=inner, args={'val': inner.data['val']}, site=call.site))
        return o
    a = counter_obj(ex, st, call.args[0])
    if a is None:
        return NotImplemented
    cur = atomic_val(ex, st, a)
    if kind == 'get':
        st.emit(Ev('CTR_GET', obj=a, res=cur, site=call.site))
        return cur
    if kind == 'next':
        # lsm-tree: fetch_add(1) with an assertion that the reserved MSB range is not reached
        a.data['val'] = cur + 1
        st.emit(Ev('CTR_NEXT', obj=a, res=cur, site=call.site))
        return cur
    x = as_bv64(call.args[1])
    if kind == 'set':
        a.data['val'] = x
        st.emit(Ev('CTR_SET', obj=a, args={'val': x}, site=call.site))
        return ex.unit()
    if kind == 'fetch_max':
        a.data['val'] = z3.If(z3.UGE(cur, x), cur, x)
        st.emit(Ev('CTR_FETCH_MAX', obj=a, args={'val': x}, res=cur, site=call.site))
        return cur
    return NotImplemented


@rule(r'^(std::sync::)?Mutex::lock$', r'^(std::sync::)?RwLock::(read|write)$', r'^(std::sync::)?Mutex::try_lock$')
def s_lock(ex, st, call):
    m = deref(call.args[0])
    if not isinstance(m, Obj):
        return NotImplemented
    kind = call.c0.rsplit('::', 1)[-1]
    evk = {'lock': 'LOCK', 'read': 'RLOCK', 'write': 'WLOCK', 'try_lock': 'TRYLOCK'}[kind]
    gty = generic_args(call.dst_ty)[0] if generic_args(call.dst_ty) else 'MutexGuard'
    g = Obj(gty, f'guard({m.name})', 'struct')
    g.data['lock'] = m
    c = m.fields.get('data')
    if c is None:
        ga = generic_args(m.ty)
        c = Cell(ex.fresh(st, ga[0] if ga else '', m.name + '.data')); m.fields['data'] = c
    g.data['inner'] = c
    m.data['held'] = True
    st.emit(Ev(evk, obj=m, site=call.site))
    return ex.mk_enum(call.dst_ty, 'Ok', [g])


@rule(r'^(std::sync::)?(Mutex|RwLock)::new$', r'^<(std::sync::)?(Mutex|RwLock)<.*> as Default>::default$')
def s_lock_new(ex, st, call):
    m = Obj(call.dst_ty, 'lock', 'struct')
    if call.args:
        m.fields['data'] = Cell(call.args[0])
    return m


# =============================================================================== byte buffers, hashing, journal file
def buf_segs(o):
    return o.data.setdefault('segs', [])


def bytes_of(ex, st, v):
    """abstract content of a byte-string argument: list of segments"""
    d = deref(v)
    if isinstance(d, Obj):
        if 'segs' in d.data:
            return list(d.data['segs'])
        return [('obj', d)]
    return [('val', d)]


@rule(r'^Vec::(new|with_capacity)$', r'^<Vec<.*> as Default>::default$')
def s_vec_new(ex, st, call):
    o = Obj(call.dst_ty, 'vec', 'seq')
    if re.search(r'Vec<u8>', call.dst_ty):
        o.kind = 'bytes'; o.data['segs'] = []
    else:
        o.data['items'] = []
    return o


@rule(r'^Vec::clear$')
def s_vec_clear(ex, st, call):
    v = deref(call.args[0])
    if isinstance(v, Obj):
        if 'items' in v.data:
            v.data['items'] = []
        v.data['segs'] = []
        v.data.pop('symlen', None)
        v.data['cleared'] = True
    return ex.unit()


@rule(r'^Vec::len$', r'^core::slice::<impl \[.*\]>::len$', r'^(lsm_tree::)?Slice::len$', r'^<\[.*\]>::len$', r'^str::len$', r'^core::str::<impl str>::len$')
def s_len(ex, st, call):
    a = call.args[0]
    if isinstance(a, Ref) and a.meta is not None:
        return a.meta
    v = deref(a)
    if isinstance(v, Obj):
        if v.kind == 'bytes' and 'segs' in v.data and 'len' not in v.data and 'symlen' not in v.data:
            return seg_len(ex, st, v.data['segs'])
        return ex.contract.length_of(ex, st, v)
    return NotImplemented


@rule(r'^Vec::is_empty$', r'^core::slice::<impl \[.*\]>::is_empty$', r'^(lsm_tree::)?Slice::is_empty$')
def s_is_empty(ex, st, call):
    a = call.args[0]
    if isinstance(a, Ref) and a.meta is not None:
        return a.meta == bv(0)
    v = deref(a)
    if isinstance(v, Obj):
        if 'items' in v.data:
            return z3.BoolVal(len(v.data['items']) == 0)
        return ex.contract.length_of(ex, st, v) == bv(0)
    return NotImplemented


def seg_len(ex, st, segs):
    total = bv(0)
    for s in segs:
        k = s[0]
        if k == 'u8':
            total = total + 1
        elif k in ('u16le', 'le16', 'be16'):
            total = total + 2
        elif k in ('u32le', 'le32', 'be32'):
            total = total + 4
        elif k in ('u64le', 'le64', 'be64'):
            total = total + 8
        elif k == 'const':
            total = total + 4
        elif k == 'obj':
            total = total + ex.contract.length_of(ex, st, s[1])
        else:
            total = total + z3.BitVec(f'seglen!{next(st.fresh)}', 64)
    return z3.simplify(total)


@rule(r'^<.* as WriteBytesExt>::write_(u8|u16|u32|u64|i8|i16|i32|i64|f32|f64)$', r'^WriteBytesExt::write_(u8|u16|u32|u64)$')
def s_write_int(ex, st, call):
    w = deref(call.args[0])
    kind = call.c0.rsplit('_', 1)[-1]
    if isinstance(w, Obj) and base_name(w.ty) in ('Vec', '') and w.kind in ('bytes', 'seq', 'opaque'):
        buf_segs(w).append((kind + (endian_of(call) if kind not in ('u8', 'i8') else ''), call.args[1]))
        w.kind = 'bytes'
        return ex.mk_enum(call.dst_ty, 'Ok', [ex.unit()])
    return io_event(ex, st, call, 'W_INT', w, {'kind': kind + (endian_of(call) if kind not in ('u8', 'i8') else ''), 'val': call.args[1]})


@rule(r'^<Vec<u8> as (std::io::)?Write>::write_all$', r'^<(W|&mut W|&mut Vec<u8>) as (std::io::)?Write>::write_all$')
def s_buf_write_all(ex, st, call):
    w = deref(call.args[0])
    if isinstance(w, Obj) and (w.kind == 'bytes' or base_name(w.ty) == 'Vec'):
        buf_segs(w).extend(bytes_of(ex, st, call.args[1]))
        w.kind = 'bytes'
        return ex.mk_enum(call.dst_ty, 'Ok', [ex.unit()])
    if isinstance(w, Obj) and base_name(w.ty) == 'BufWriter':
        return s_bufwriter(ex, st, call)
    return io_event(ex, st, call, 'W_ALL', w, {'bytes': bytes_of(ex, st, call.args[1])})


def io_event(ex, st, call, kind, obj, args, ok=None):
    f = ex.contract.fault(ex, st, kind)
    st.emit(Ev(kind, obj=obj if isinstance(obj, Obj) else None, args=args, fault=f, site=call.site))
    return ex.mk_result(st, call.dst_ty, f, ok=ok)


def file_of(ex, st, bw):
    c = bw.fields.get('inner')
    if c is None:
        c = Cell(Obj('std::fs::File', bw.name + '.file', 'opaque')); bw.fields['inner'] = c
    return c


@rule(r'^<BufWriter<File> as (std::io::)?Write>::(write_all|flush|write)$', r'^BufWriter::(get_mut|get_ref|new|with_capacity|into_inner)$',
      r'^<BufWriter<File> as (std::io::)?Seek>::(stream_position|seek)$')
def s_bufwriter(ex, st, call):
    kind = call.c0.rsplit('::', 1)[-1]
    if kind in ('new', 'with_capacity'):
        o = Obj('BufWriter<File>', 'bufwriter', 'struct')
        o.fields['inner'] = Cell(call.args[-1])
        return o
    bw = deref(call.args[0])
    if not isinstance(bw, Obj):
        return NotImplemented
    if kind in ('get_mut', 'get_ref'):
        return Ref(file_of(ex, st, bw))
    if kind == 'write_all':
        return io_event(ex, st, call, 'J_APPEND', bw, {'bytes': bytes_of(ex, st, call.args[1])})
    if kind == 'flush':
        return io_event(ex, st, call, 'J_FLUSH', bw, {})
    if kind in ('stream_position', 'seek'):
        return io_event(ex, st, call, 'J_POS', bw, {}, ok=z3.BitVec(f'pos!{next(st.fresh)}', 64))
    return NotImplemented


@rule(r'^File::(sync_all|sync_data|set_len|metadata|create_new|open|create)$', r'^OpenOptions::(new|read|write|append|create_new|create|truncate|open)$',
      r'^std::fs::(create_dir_all|remove_file|remove_dir_all|remove_dir|read_dir|rename|File::open|metadata)$',
      r'^(create_dir_all|remove_file|remove_dir_all|remove_dir|read_dir|rename)$')
def s_file(ex, st, call):
    kind = call.c0.rsplit('::', 1)[-1]
    if call.c0.startswith('OpenOptions') and kind != 'open':
        if kind == 'new':
            o = Obj('OpenOptions', 'openopts', 'struct'); o.data['flags'] = {}
            return o
        oo = deref(call.args[0])
        if isinstance(oo, Obj):
            oo.data.setdefault('flags', {})[kind] = call.args[1] if len(call.args) > 1 else True
        return call.args[0]
    if kind in ('sync_all', 'sync_data'):
        f = deref(call.args[0])
        return io_event(ex, st, call, 'F_SYNC_ALL' if kind == 'sync_all' else 'F_SYNC_DATA', f, {})
    if kind == 'set_len':
        f = deref(call.args[0])
        return io_event(ex, st, call, 'F_SET_LEN', f, {'len': call.args[1]})
    if kind in ('create_new', 'open', 'create'):
        flags = {}
        patharg = call.args[-1]
        if call.c0.startswith('OpenOptions'):
            oo = deref(call.args[0]); flags = dict(oo.data.get('flags', {})) if isinstance(oo, Obj) else {}
        else:
            flags = {kind: True}
        fobj = Obj('std::fs::File', 'file', 'opaque'); fobj.data['path'] = deref(patharg); fobj.data['flags'] = flags
        return io_event(ex, st, call, 'F_OPEN', fobj, {'path': deref(patharg), 'flags': flags, 'how': kind}, ok=fobj)
    if kind == 'metadata':
        return io_event(ex, st, call, 'F_METADATA', deref(call.args[0]), {})
    if kind in ('create_dir_all', 'remove_file', 'remove_dir_all', 'remove_dir', 'rename'):
        return io_event(ex, st, call, 'FS_' + kind.upper(), None, {'path': deref(call.args[0])})
    if kind == 'read_dir':
        return io_event(ex, st, call, 'FS_READ_DIR', None, {'path': deref(call.args[0])})
    return NotImplemented


@rule(r'^(file::)?fsync_directory$')
def s_fsync_dir(ex, st, call):
    return io_event(ex, st, call, 'DIR_FSYNC', None, {'path': deref(call.args[0])})


@rule(r'^(xxhash_rust::xxh3::)?Xxh3::(new|default|update|digest|reset)$', r'^<Xxh3 as Default>::default$', r'^<Xxh3 as Hasher>::(finish|write)$')
def s_xxh3(ex, st, call):
    kind = call.c0.rsplit('::', 1)[-1]
    if kind in ('new', 'default'):
        o = Obj('Xxh3', 'hasher', 'struct'); o.data['hashed'] = []
        return o
    h = deref(call.args[0])
    if not isinstance(h, Obj):
        return NotImplemented
    if kind in ('update', 'write'):
        h.data.setdefault('hashed', []).extend(bytes_of(ex, st, call.args[1]))
        return ex.unit()
    if kind in ('finish', 'digest'):
        v = z3.BitVec(f'xxh3!{next(st.fresh)}', 64)
        st.emit(Ev('HASH_FINISH', obj=h, args={'bytes': list(h.data.get('hashed', []))}, res=v, site=call.site))
        return v
    if kind == 'reset':
        h.data['hashed'] = []
        return ex.unit()
    return NotImplemented


# =============================================================================== lsm-tree
TREE_WRITE = {'insert': 'T_INSERT', 'remove': 'T_REMOVE', 'remove_weak': 'T_REMOVE_WEAK'}
TREE_READ = {'get': 'T_GET', 'contains_key': 'T_CONTAINS', 'size_of': 'T_SIZE_OF', 'first_key_value': 'T_FIRST',
             'last_key_value': 'T_LAST', 'is_empty': 'T_IS_EMPTY', 'iter': 'T_ITER', 'range': 'T_RANGE', 'prefix': 'T_PREFIX',
             'len': 'T_LEN', 'multi_get': 'T_MULTI_GET'}


@rule(r'^<AnyTree as AbstractTree>::\w+$', r'^<lsm_tree::AnyTree as (lsm_tree::)?AbstractTree>::\w+$', r'^AnyTree::\w+$')
def s_tree(ex, st, call):
    kind = call.c0.rsplit('::', 1)[-1]
    t = deref(call.args[0])
    if not isinstance(t, Obj) and not isinstance(t, EnumV):
        return NotImplemented
    if isinstance(t, EnumV):
        t = t.data.setdefault('as_obj', Obj(t.ty, t.name))
    a = call.args
    if kind in TREE_WRITE:
        args = {'key': deref(a[1])}
        if kind == 'insert':
            args['value'] = deref(a[2]); args['seqno'] = a[3]
        else:
            args['seqno'] = a[2]
        st.emit(Ev(TREE_WRITE[kind], obj=t, args=args, site=call.site))
        r = Obj(call.dst_ty, 'sizes', 'tuple')
        r.fields[0] = Cell(z3.BitVec(f'item_size!{next(st.fresh)}', 64)); r.fields[1] = Cell(z3.BitVec(f'memtable_size!{next(st.fresh)}', 64))
        return r
    if kind in TREE_READ:
        args = {}
        if kind in ('get', 'contains_key', 'size_of'):
            args = {'key': deref(a[1]), 'seqno': a[2]}
        elif kind in ('first_key_value', 'last_key_value', 'is_empty', 'iter', 'len'):
            args = {'seqno': a[1], 'index': a[2] if len(a) > 2 else None}
        elif kind in ('range', 'prefix'):
            args = {'bounds': deref(a[1]), 'seqno': a[2], 'index': a[3] if len(a) > 3 else None}
        res = ex.fresh(st, call.dst_ty, kind)
        if isinstance(res, Obj):
            res.data['from_tree'] = (kind, t, args)
        if isinstance(res, EnumV):
            res.data['from_tree'] = (kind, t, args)
            # a tree read may fail with an I/O error: the Result discriminant is a fault
            if base_name(call.dst_ty) == 'Result':
                f = ex.contract.fault(ex, st, 'T_READ')
                st.pc.append(res.disc == z3.If(f, bv(1), bv(0)))
        st.emit(Ev(TREE_READ[kind], obj=t, args=args, res=res, site=call.site))
        return res
    if kind == 'clear':
        return io_event(ex, st, call, 'T_CLEAR', t, {})
    if kind in ('flush', 'compact', 'major_compact', 'drop_range', 'ingest'):
        args = {'args': a[1:]}
        if kind == 'flush':
            args = {'lock': a[1] if len(a) > 1 else None, 'watermark': a[2] if len(a) > 2 else None}
        elif kind == 'compact':
            args = {'strategy': deref(a[1]), 'watermark': a[2]}
        elif kind == 'major_compact':
            args = {'target_size': a[1], 'watermark': a[2]}
        return io_event(ex, st, call, 'T_' + kind.upper(), t, args)
    if kind == 'rotate_memtable':
        res = ex.fresh(st, call.dst_ty, 'rotated')
        st.emit(Ev('T_ROTATE', obj=t, res=res, site=call.site))
        return res
    if kind in ('get_highest_persisted_seqno', 'get_highest_memtable_seqno', 'get_highest_seqno'):
        res = ex.fresh(st, call.dst_ty, kind)
        st.emit(Ev('T_' + kind.upper(), obj=t, res=res, site=call.site))
        return res
    if kind in ('active_memtable', 'get_version_history_lock', 'sealed_memtable_count', 'l0_run_count', 'table_count',
                'approximate_len', 'disk_space', 'tree_config', 'level_table_count', 'blob_file_count', 'stale_blob_bytes',
                'lock_active_memtable', 'get_flush_lock', 'metrics', 'version_free_list_len', 'table_file_cache_size',
                'current_version', 'get_compaction_strategy', 'id', 'is_compacting', 'tree_type', 'filter_size'):
        res = ex.fresh(st, call.dst_ty, kind)
        st.emit(Ev('T_QUERY', obj=t, args={'what': kind}, res=res, site=call.site))
        return res
    st.emit(Ev('T_OTHER', obj=t, args={'what': kind, 'args': a[1:]}, site=call.site))
    return ex.fresh(st, call.dst_ty, kind)


# =============================================================================== lsm-tree small codecs, misc std
@rule(r'^<u8 as From<(lsm_tree::)?ValueType>>::from$', r'^<(lsm_tree::)?ValueType as Into<u8>>::into$')
def s_valuetype_to_u8(ex, st, call):
    v = _as_enum(ex, st, call.args[0])
    if not isinstance(v, EnumV):
        return NotImplemented
    d = bv(v.disc) if isinstance(v.disc, int) else v.disc
    return z3.Extract(7, 0, d)


@rule(r'^<(lsm_tree::)?ValueType as TryFrom<u8>>::try_from$', r'^<u8 as TryInto<(lsm_tree::)?ValueType>>::try_into$')
def s_u8_to_valuetype(ex, st, call):
    x = call.args[0]
    ok = z3.Or(x == 0, x == 1, x == 2, x == 4)
    e = EnumV(call.dst_ty, z3.If(ok, bv(0), bv(1)), 'vt_res')
    vt = EnumV('lsm_tree::ValueType', z3.ZeroExt(56, x), 'vt')
    o = Obj('Ok', 'Ok', 'variant'); o.fields[0] = Cell(vt); e.payloads['Ok'] = o
    o2 = Obj('Err', 'Err', 'variant'); o2.fields[0] = Cell(ex.unit()); e.payloads['Err'] = o2
    return e


@rule(r'^<(lsm_tree::)?CompressionType as (lsm_tree::coding::)?Encode>::encode_into$')
def s_comp_encode(ex, st, call):
    c = _as_enum(ex, st, deref(call.args[0]))
    w = deref(call.args[1])
    d = bv(c.disc) if isinstance(c.disc, int) else c.disc
    if isinstance(w, Obj):
        buf_segs(w).append(('u8', z3.Extract(7, 0, d)))
        w.kind = 'bytes'
        return ex.mk_enum(call.dst_ty, 'Ok', [ex.unit()])
    return NotImplemented


@rule(r'^(lz4_flex::)?(block::)?compress$', r'^lz4_flex::block::compress::compress$')
def s_lz4_compress(ex, st, call):
    o = Obj('Vec<u8>', 'lz4', 'bytes')
    o.data['segs'] = [('lz4', bytes_of(ex, st, call.args[0]))]
    return o


@rule(r'^(std::thread::)?sleep$', r'^Duration::(from_millis|from_secs|from_micros|from_nanos)$', r'^(std::thread::)?yield_now$',
      r'^Instant::(now|elapsed)$', r'^std::time::Instant::(now|elapsed)$')
def s_time(ex, st, call):
    if call.c0.endswith('sleep'):
        st.emit(Ev('SLEEP', site=call.site))
        return ex.unit()
    return ex.fresh(st, call.dst_ty, 'time')


@rule(r'^<(std::borrow::)?Cow<.*> as Deref>::deref$')
def s_cow_deref(ex, st, call):
    c = deref(call.args[0])
    if isinstance(c, EnumV) and isinstance(c.disc, int):
        var = 'Borrowed' if c.disc == 0 else 'Owned'
        o = c.payloads.get(var)
        if o is not None and 0 in o.fields:
            v = o.fields[0].val
            return v if isinstance(v, Ref) else Ref(o.fields[0])
    return call.args[0]


# =============================================================================== sequences and iterators
def seq_items(o):
    return o.data.get('items') if isinstance(o, Obj) else None


def mk_seq(ty, items, name='seq'):
    o = Obj(ty, name, 'seq')
    o.data['items'] = [c if isinstance(c, Cell) else Cell(c) for c in items]
    return o


def mk_iter(ex, st, ty, seq, by_ref, name='iter'):
    it = Obj(ty, name, 'iter')
    it.data['seq'] = seq; it.data['pos'] = 0; it.data['by_ref'] = by_ref
    its = seq_items(seq)
    it.data['end'] = len(its) if its is not None else None
    return it


@rule(r'^core::slice::<impl \[.*\]>::(first|last)$', r'^Vec::(first|last)$', prio=1)
def s_seq_first(ex, st, call):
    v = deref(call.args[0])
    its = seq_items(v)
    if its is None or v.data.get('extended_unknown'):
        return NotImplemented
    if not its:
        return ex.mk_enum(call.dst_ty, 'None')
    c = its[0] if call.c0.endswith('first') else its[-1]
    return ex.mk_enum(call.dst_ty, 'Some', [Ref(c)])


@rule(r'^Vec::(remove|pop|swap_remove)$', prio=1)
def s_seq_remove(ex, st, call):
    v = deref(call.args[0])
    its = seq_items(v)
    if its is None or v.data.get('extended_unknown'):
        return NotImplemented
    kind = call.c0.rsplit('::', 1)[-1]
    if kind == 'pop':
        if not its:
            return ex.mk_enum(call.dst_ty, 'None')
        c = its.pop()
        st.emit(Ev('VEC_REMOVE', obj=v, args={'index': len(its), 'val': c.val}, site=call.site))
        return ex.mk_enum(call.dst_ty, 'Some', [c.val])
    idx = call.args[1]
    if z3.is_expr(idx):
        idx = z3.simplify(idx)
        if not z3.is_bv_value(idx):
            return NotImplemented
        idx = idx.as_long()
    if not isinstance(idx, int):
        return NotImplemented
    if idx >= len(its):
        st.emit(Ev('PANIC', args={'msg': 'removal index out of bounds', 'callee': call.c0}, site=call.site)); st.status = 'panic'
        return [(st, None)]
    if kind == 'swap_remove':
        c = its[idx]; last = its.pop()
        if idx < len(its):
            its[idx] = last
    else:
        c = its.pop(idx)
    st.emit(Ev('VEC_REMOVE', obj=v, args={'index': idx, 'val': c.val}, site=call.site))
    return c.val


def _conc(v):
    if isinstance(v, int):
        return v
    if z3.is_expr(v):
        v = z3.simplify(v)
        if z3.is_bv_value(v):
            return v.as_long()
    return None


@rule(r'^(core|std)::slice::<impl \[.*\]>::(rotate_left|rotate_right|reverse|swap|fill|fill_with|sort|sort_unstable|sort_by|sort_unstable_by|sort_by_key|sort_unstable_by_key|sort_by_cached_key|select_nth_unstable.*)$',
      r'^Vec::(truncate|clear|retain|retain_mut|dedup|dedup_by|dedup_by_key|insert|split_off|append|resize|resize_with|drain|extend_from_slice|swap_remove)$', prio=-1)
def s_seq_mutators(ex, st, call):
    """in-place mutators of slices / vectors whose elements we track: the simple ones are executed, the others make the content unknown
    (never leave a stale model behind)"""
    v = deref(call.args[0])
    its = seq_items(v)
    if its is None:
        return NotImplemented
    kind = call.c0.rsplit('::', 1)[-1]
    n = _conc(call.args[1]) if len(call.args) > 1 else None
    if kind == 'reverse':
        its.reverse(); return ex.unit()
    if kind == 'clear':
        del its[:]; return ex.unit()
    if kind == 'truncate' and n is not None:
        del its[n:]; return ex.unit()
    if kind in ('rotate_left', 'rotate_right') and n is not None and n <= len(its):
        k = n if kind == 'rotate_left' else (len(its) - n)
        its[:] = its[k:] + its[:k]; return ex.unit()
    if kind == 'swap' and n is not None and _conc(call.args[2]) is not None and max(n, _conc(call.args[2])) < len(its):
        j = _conc(call.args[2]); its[n], its[j] = its[j], its[n]; return ex.unit()
    if kind == 'insert' and n is not None and n <= len(its):
        its.insert(n, Cell(call.args[2])); return ex.unit()
    if kind in ('sort', 'sort_unstable', 'sort_by_key', 'sort_unstable_by_key', 'sort_by_cached_key') and len(its) <= 4:
        return _sort_seq(ex, st, call, v, its, call.args[1] if len(call.args) > 1 else None)
    # anything else: the element list is no longer known
    v.data.pop('items', None)
    v.data['extended_unknown'] = True
    st.emit(Ev('SEQ_UNKNOWN', obj=v, args={'by': call.c0}, site=call.site))
    return ex.fresh(st, call.dst_ty, kind)


def _sort_key(ex, st, clo, cell):
    """(descending?, 64-bit key) of one element under the key closure (None if not a scalar / Reverse(scalar))"""
    if clo is None:
        k = cell.val
    else:
        res = list(ex.call_closure(st, clo, [Ref(cell)]))
        if len(res) != 1 or res[0][0] is not st or st.status != 'running':
            return None
        k = res[0][1]
    desc = False
    k = deref(k)
    if isinstance(k, Obj) and base_name(k.ty) == 'Reverse' and 0 in k.fields:
        desc = True; k = deref(k.fields[0].val)
    if isinstance(k, Obj) and k.kind == 'tuple' and 0 in k.fields and len(k.fields) == 1:
        k = deref(k.fields[0].val)
    if z3.is_bv(k):
        return desc, k
    if isinstance(k, Obj) and z3.is_bv(k.data.get('sort_rank')):      # an opaque key whose total order the harness models (e.g. a file name)
        return desc, k.data['sort_rank']
    return None


def _sort_seq(ex, st, call, v, its, clo):
    """sorting <= 4 elements with symbolic scalar keys: one continuation per feasible order"""
    import itertools
    if len(its) <= 1:
        return ex.unit()
    ks = [_sort_key(ex, st, clo, c) for c in its]
    if any(k is None for k in ks):
        v.data.pop('items', None); v.data['extended_unknown'] = True
        return ex.fresh(st, call.dst_ty, 'sorted')
    desc = ks[0][0]
    keys = [k for _d, k in ks]
    lt = (lambda a, b: z3.UGT(a, b)) if desc else (lambda a, b: z3.ULT(a, b))
    le = (lambda a, b: z3.UGE(a, b)) if desc else (lambda a, b: z3.ULE(a, b))
    perms = list(itertools.permutations(range(len(its))))
    stable = 'unstable' not in call.c0

    def cond_of(q):
        if len(q) <= 1:
            return z3.BoolVal(True)
        if stable:      # equal keys keep their original relative order
            return z3.And([z3.Or(lt(keys[q[a]], keys[q[a + 1]]), z3.And(keys[q[a]] == keys[q[a + 1]], z3.BoolVal(q[a] < q[a + 1]))) for a in range(len(q) - 1)])
        return z3.And([le(keys[q[a]], keys[q[a + 1]]) for a in range(len(q) - 1)])
    feas = [q for q in perms if ex.feasible(st.pc, cond_of(q))]
    outs = []
    for n_, perm in enumerate(feas):
        cond = cond_of(perm)
        if n_ < len(feas) - 1:
            h = Obj('', 'h'); h.fields[0] = Cell(v)
            st.globals['__sort'] = h
            s2, _m = st.clone()
            st.globals.pop('__sort', None)
            v2 = s2.globals.pop('__sort').fields[0].val
        else:
            s2, v2 = st, v
        s2.pc.append(cond)          # ties: a stable sort keeps the original order (conditions are exclusive); an unstable one may produce any of them
        items2 = v2.data['items']
        v2.data['items'] = [items2[j] for j in perm]
        s2.emit(Ev('SORT', obj=v2, args={'perm': perm, 'descending': desc, 'stable': stable}, site=call.site))
        outs.append((s2, ex.unit()))
    return outs


@rule(r'^Vec::push$', r'^VecDeque::push_back$')
def s_vec_push(ex, st, call):
    v = deref(call.args[0])
    if isinstance(v, Obj):
        if v.kind == 'bytes' and 'segs' in v.data and 'items' not in v.data:
            v.data['segs'].append(('u8', call.args[1]))
        else:
            v.data.setdefault('items', [] if v.data.get('fresh_empty', True) and not v.fields else [])
            v.data['items'].append(Cell(call.args[1]))
            v.kind = 'seq'
        st.emit(Ev('VEC_PUSH', obj=v, args={'val': call.args[1]}, site=call.site)) if False else None
    return ex.unit()


@rule(r'^core::slice::<impl \[.*\]>::iter(_mut)?$', r'^Vec::iter(_mut)?$', r'^<&(mut )?Vec<.*> as IntoIterator>::into_iter$',
      r'^<&(mut )?\[.*\] as IntoIterator>::into_iter$', r'^<Vec<.*> as IntoIterator>::into_iter$', r'^Vec::drain$',
      r'^Vec::into_iter$', r'^<\[.*; \d+\] as IntoIterator>::into_iter$')
def s_iter_new(ex, st, call):
    a = call.args[0]
    v = deref(a)
    by_ref = isinstance(a, Ref)
    if not isinstance(v, Obj):
        return NotImplemented
    if v.kind == 'array' and 'items' not in v.data:
        n = v.data.get('len')
        if n is not None:
            v.data['items'] = [v.fields[('i', i)] for i in range(n)]
    if call.c0.endswith('Vec::drain'):
        # drain(..) moves the elements out (owned items) and leaves the vector empty; a partial range is not modelled
        rng = deref(call.args[1]) if len(call.args) > 1 else None
        full = ('RangeFull' in (getattr(rng, 'ty', '') or '')) or ('RangeFull' in call.callee) or ('RangeFull' in str(call.argops[1]) if getattr(call, 'argops', None) and len(call.argops) > 1 else False)
        its = seq_items(v)
        if not full or its is None:
            return NotImplemented
        moved = mk_seq(v.ty, list(its), v.name + '.drained')
        v.data['items'] = []
        return mk_iter(ex, st, call.dst_ty, moved, False)
    return mk_iter(ex, st, call.dst_ty, v, by_ref)


@rule(r'^<.* as IntoIterator>::into_iter$', prio=-1)
def s_into_iter_identity(ex, st, call):
    a = call.args[0]
    v = deref(a)
    if isinstance(v, Obj) and v.kind == 'iter':
        return a
    if isinstance(v, Obj) and ('items' in v.data):
        return mk_iter(ex, st, call.dst_ty, v, isinstance(a, Ref))
    if isinstance(v, Obj):
        # unknown iterable: an iterator over an unknown sequence
        return mk_iter(ex, st, call.dst_ty, v, isinstance(a, Ref))
    return NotImplemented


def iter_elem_ty(ty):
    ga = generic_args(ty)
    return ga[0] if ga else ''


def _known_iter(it):
    return isinstance(it, Obj) and it.kind == 'iter' and (seq_items(it.data.get('seq')) is not None or 'chain' in it.data)


def _iter_step(ex, st, it, back=False):
    """advance a known iterator: returns list of (state, iterator_in_that_state, value or None when exhausted)"""
    if 'chain' in it.data:
        parts = it.data['chain']
        idx = it.data.setdefault('chain_idx', 0)
        while idx < len(parts):
            sub = parts[idx]
            outs = _iter_step(ex, st, sub, back)
            if len(outs) == 1 and outs[0][0] is st and outs[0][2] is None:
                idx += 1; it.data['chain_idx'] = idx
                continue
            res = []
            for s2, _sub2, v in outs:
                it2 = it if s2 is st else _relocate(ex, s2, it)
                res.append((s2, it2, v))
            return res
        return [(st, it, None)]
    items = seq_items(it.data.get('seq'))
    pos = it.data['pos']; end = it.data['end'] if it.data['end'] is not None else len(items)
    if pos >= end:
        return [(st, it, None)]
    if back:
        c = items[end - 1]; it.data['end'] = end - 1
    else:
        c = items[pos]; it.data['pos'] = pos + 1
    val = Ref(c) if it.data.get('by_ref') else c.val
    if it.data.get('copied') and isinstance(val, Ref):
        val = val.cell.val
    f = it.data.get('map')
    if f is not None:
        holder = Obj('', 'h'); holder.fields[0] = Cell(it)
        st.globals['__it'] = holder
        res = []
        for s2, v in ex.call_closure(st, f, [val]):
            h2 = s2.globals.pop('__it', None)
            res.append((s2, h2.fields[0].val if h2 is not None else it, v if s2.status == 'running' else None))
        return res
    return [(st, it, val)]


@rule(r'^<.* as Iterator>::next$', r'^<.* as DoubleEndedIterator>::next_back$', prio=-1)
def s_iter_next(ex, st, call):
    it = deref(call.args[0])
    if not isinstance(it, Obj):
        return NotImplemented
    back = call.c0.endswith('next_back')
    if not _known_iter(it):
        if it.kind == 'iter':
            seq = it.data.get('seq')
            res = ex.fresh(st, call.dst_ty, 'next')
            st.emit(Ev('IT_NEXT_BACK' if back else 'IT_NEXT', obj=seq if isinstance(seq, Obj) else it, res=res, site=call.site))
            return res
        # iterator-like object we did not create (e.g. lsm-tree iterators): event + havoc'd Option
        res = ex.fresh(st, call.dst_ty, 'next')
        st.emit(Ev('IT_NEXT_BACK' if back else 'IT_NEXT', obj=it, res=res, site=call.site))
        if isinstance(res, EnumV):
            res.data['from_iter'] = it
        return res
    out = []
    for s2, _it2, v in _iter_step(ex, st, it, back):
        if s2.status != 'running':
            out.append((s2, None)); continue
        out.append((s2, ex.mk_enum(call.dst_ty, 'None') if v is None else ex.mk_enum(call.dst_ty, 'Some', [v])))
    return out


@rule(r'^<.* as Iterator>::(map|filter|filter_map|flat_map|enumerate|rev|take|skip|cloned|copied|peekable|chain|zip|flatten|inspect|map_while|take_while|skip_while|fuse|by_ref)$',
      r'^core::iter::Iterator::(map|filter|filter_map|enumerate|rev|take|skip|cloned|copied|peekable)$')
def s_iter_adapt(ex, st, call):
    kind = call.c0.rsplit('::', 1)[-1]
    it = deref(call.args[0])
    if kind == 'chain' and _known_iter(it):
        other = deref(call.args[1])
        if isinstance(other, Obj) and other.kind != 'iter' and seq_items(other) is not None:
            other = mk_iter(ex, st, '', other, isinstance(call.args[1], Ref))
        if _known_iter(other):
            n = Obj(call.dst_ty, 'chain', 'iter'); n.data['chain'] = [it, other]; n.data['chain_idx'] = 0
            return n
    if kind in ('copied', 'cloned') and _known_iter(it) and 'chain' not in it.data and it.data.get('map') is None:
        items_ = seq_items(it.data['seq'])
        n = mk_iter(ex, st, call.dst_ty, it.data['seq'], it.data.get('by_ref')); n.data['pos'] = it.data['pos']; n.data['end'] = it.data['end']
        n.data['copied'] = True
        return n
    if isinstance(it, Obj) and it.kind == 'iter' and seq_items(it.data.get('seq')) is not None:
        items = seq_items(it.data['seq'])
        pos, end = it.data['pos'], it.data['end'] if it.data['end'] is not None else len(items)
        live = items[pos:end]
        by_ref = it.data.get('by_ref')
        if kind == 'rev':
            n = mk_iter(ex, st, call.dst_ty, mk_seq('', list(reversed(live))), by_ref); return n
        if kind in ('cloned', 'copied'):
            n = mk_iter(ex, st, call.dst_ty, mk_seq('', [Cell(deref(c.val) if isinstance(c.val, Ref) else c.val) for c in live]), False); return n
        if kind == 'enumerate':
            cells = []
            for i, c in enumerate(live):
                t = Obj('(usize, T)', 'pair', 'tuple'); t.fields[0] = Cell(bv(i)); t.fields[1] = Cell(Ref(c) if by_ref else c.val)
                cells.append(Cell(t))
            return mk_iter(ex, st, call.dst_ty, mk_seq('', cells), False)
        if kind == 'map' and it.data.get('map') is None:
            n = mk_iter(ex, st, call.dst_ty, mk_seq('', live), by_ref); n.data['map'] = call.args[1]
            n.data['copied'] = it.data.get('copied')
            return n
        if kind in ('by_ref',):
            return call.args[0]
        if kind in ('take', 'skip') and it.data.get('map') is None:
            n_ = call.args[1]
            if z3.is_expr(n_):
                n_ = z3.simplify(n_)
                n_ = n_.as_long() if z3.is_bv_value(n_) else None
            if isinstance(n_, int):
                n = mk_iter(ex, st, call.dst_ty, mk_seq('', live[:n_] if kind == 'take' else live[n_:]), by_ref)
                n.data['copied'] = it.data.get('copied')
                return n
    # unknown: a new opaque iterator that remembers its source
    o = Obj(call.dst_ty, f'{kind}(..)', 'opaque')
    o.data['adapter'] = (kind, it, call.args[1:])
    st.emit(Ev('IT_ADAPT', obj=o, args={'kind': kind, 'src': it, 'f': call.args[1:]}, site=call.site))
    return o


@rule(r'^(std::collections::)?HashSet::(new|default|with_hasher|with_capacity_and_hasher)$', r'^<(std::collections::)?HashSet<.*> as Default>::default$')
def s_hashset_new(ex, st, call):
    return mk_seq(call.dst_ty, [], 'hashset')


@rule(r'^(std::collections::)?HashSet::insert$')
def s_hashset_insert(ex, st, call):
    v = deref(call.args[0])
    if isinstance(v, Obj) and 'items' in v.data:
        v.data['items'].append(Cell(call.args[1]))
        return z3.Bool(f'inserted!{next(st.fresh)}')
    return NotImplemented


# =============================================================================== identity-keyed maps (HashMap<Keyspace, _> etc.)
def canon_id(v):
    """identity of a handle value: follows Refs, newtype field 0 and Arc pointers down to the shared pointee"""
    seen = 0
    while seen < 8:
        seen += 1
        v = deref(v)
        if isinstance(v, Obj):
            if 'ptr' in v.fields and v.fields['ptr'].val is not None:
                v = v.fields['ptr'].val; continue
            if v.kind in ('struct', 'opaque') and set(v.fields.keys()) == {0} and isinstance(deref(v.fields[0].val), Obj) and \
                    (base_name(v.ty) in ('Keyspace', 'Database', 'Snapshot', 'SnapshotTracker', 'Supervisor', 'OptimisticTxKeyspace', 'SingleWriterTxKeyspace')
                     or 'ptr' in deref(v.fields[0].val).fields):
                v = v.fields[0].val; continue
            # clones of byte/str values keep their content identity (map keys of type StrView / Slice)
            return ('obj', v.data.get('cid', v.uid)) if v.kind in ('str', 'bytes') else ('obj', v.uid)
        break
    if z3.is_expr(v):
        return ('val', str(z3.simplify(v)))
    return ('id', id(v))


def _map_entries(m):
    return m.data.setdefault('entries', {})


def map_lookup(ex, st, m, key, val_ty, create_symbolic=True):
    """returns (present: z3 Bool, cell)"""
    ents = _map_entries(m)
    kc = getattr(ex, 'key_canon', None)
    k = (kc(st, key) if kc else None) or canon_id(key)
    e = ents.get(k)
    if e is None:
        if m.data.get('known_empty') or not create_symbolic:
            e = [z3.BoolVal(False), Cell(None), key]
        else:
            e = [z3.Bool(f'has:{m.name}[{k[1]}]!{next(st.fresh)}'), Cell(ex.fresh(st, val_ty, f'{m.name}[{k[1]}]')), key]
        ents[k] = e
    return e


@rule(r'^(std::collections::)?HashMap::(get|get_mut|contains_key|remove|insert)$', r'^(std::collections::)?BTreeMap::(get|get_mut|contains_key|remove)$')
def s_map_get(ex, st, call):
    m = deref(call.args[0])
    if not isinstance(m, Obj):
        return NotImplemented
    kind = call.c0.rsplit('::', 1)[-1]
    ga = generic_args(m.ty)
    vty = ga[1] if len(ga) > 1 else ''
    e = map_lookup(ex, st, m, call.args[1], vty)
    st.emit(Ev('MAP_' + kind.upper(), obj=m, args={'key': deref(call.args[1])}, site=call.site))
    if kind in ('get', 'get_mut'):
        r = EnumV(call.dst_ty, z3.If(e[0], bv(1), bv(0)), 'mapget')
        o = Obj('Some', 'Some', 'variant'); o.fields[0] = Cell(Ref(e[1])); r.payloads['Some'] = o
        return r
    if kind == 'contains_key':
        return e[0]
    if kind == 'remove':
        r = EnumV(call.dst_ty, z3.If(e[0], bv(1), bv(0)), 'mapremoved')
        o = Obj('Some', 'Some', 'variant'); o.fields[0] = Cell(e[1].val); r.payloads['Some'] = o
        e[0] = z3.BoolVal(False); e[1] = Cell(None)
        return r
    if kind == 'insert':
        old_present, old_cell = e[0], e[1]
        r = EnumV(call.dst_ty, z3.If(old_present, bv(1), bv(0)), 'mapold')
        o = Obj('Some', 'Some', 'variant'); o.fields[0] = Cell(old_cell.val); r.payloads['Some'] = o
        e[0] = z3.BoolVal(True); e[1] = Cell(call.args[2])
        return r
    return NotImplemented


@rule(r'^(std::collections::)?HashMap::entry$', r'^(std::collections::)?BTreeMap::entry$')
def s_map_entry(ex, st, call):
    m = deref(call.args[0])
    if not isinstance(m, Obj):
        return NotImplemented
    ga = generic_args(m.ty)
    e = map_lookup(ex, st, m, call.args[1], ga[1] if len(ga) > 1 else '')
    o = Obj(call.dst_ty, 'entry', 'opaque'); o.data['entry'] = e; o.data['map'] = m; o.data['key'] = call.args[1]
    return o


@rule(r'^(std::collections::hash_map::|std::collections::btree_map::)?Entry::(or_insert_with|or_insert|or_default)$')
def s_entry_or_insert(ex, st, call):
    en = deref(call.args[0])
    if not isinstance(en, Obj) or 'entry' not in en.data:
        return NotImplemented
    e = en.data['entry']
    kind = call.c0.rsplit('::', 1)[-1]
    out = []
    for s2, present, kept in fork_cond(ex, st, e[0], [en] + list(call.args[1:])):
        en2 = kept[0]; e2 = en2.data['entry']
        if present:
            out.append((s2, Ref(e2[1])))
            continue
        if kind == 'or_insert':
            e2[0] = z3.BoolVal(True); e2[1].val = kept[1]
            s2.emit(Ev('MAP_INSERT', obj=en2.data['map'], args={'key': deref(en2.data['key']), 'val': kept[1]}, site=call.site))
            out.append((s2, Ref(e2[1])))
        elif kind == 'or_default':
            e2[0] = z3.BoolVal(True); e2[1].val = default_value(ex, s2, strip_ref(call.dst_ty) or '')
            out.append((s2, Ref(e2[1])))
        else:
            for s3, v in ex.call_closure(s2, kept[1], []):
                if s3.status != 'running':
                    out.append((s3, None)); continue
                en3 = en2 if s3 is s2 else _relocate(ex, s3, en2)
                e3 = en3.data['entry']
                e3[0] = z3.BoolVal(True); e3[1].val = v
                s3.emit(Ev('MAP_INSERT', obj=en3.data['map'], args={'key': deref(en3.data['key']), 'val': v}, site=call.site))
                out.append((s3, Ref(e3[1])))
    return out


@rule(r'^(std::collections::hash_map::|std::collections::btree_map::)?Entry::and_modify$')
def s_entry_and_modify(ex, st, call):
    en = deref(call.args[0])
    if not isinstance(en, Obj) or 'entry' not in en.data:
        return NotImplemented
    out = []
    for s2, present, kept in fork_cond(ex, st, en.data['entry'][0], [en, call.args[1]]):
        en2 = kept[0]
        if not present:
            out.append((s2, en2)); continue
        holder = Obj('', 'h'); holder.fields[0] = Cell(en2)
        s2.globals['__am'] = holder
        for s3, _v in ex.call_closure(s2, kept[1], [Ref(en2.data['entry'][1])]):
            h3 = s3.globals.pop('__am', None)
            out.append((s3, h3.fields[0].val if (h3 is not None and s3.status == 'running') else None))
    return out


@rule(r'^(std::collections::)?HashMap::(values|into_values|keys)$', prio=-1)
def s_map_values(ex, st, call):
    m = deref(call.args[0])
    if not isinstance(m, Obj) or 'entries' not in m.data or not m.data.get('known_empty'):
        return NotImplemented
    kind = call.c0.rsplit('::', 1)[-1]
    cells = []
    for e in m.data['entries'].values():
        pres = z3.simplify(e[0]) if z3.is_expr(e[0]) else z3.BoolVal(bool(e[0]))
        if z3.is_false(pres):
            continue
        if not z3.is_true(pres):
            return NotImplemented
        cells.append(Cell(e[2]) if kind == 'keys' else e[1])
    return mk_iter(ex, st, call.dst_ty, mk_seq('', cells, m.name + '.' + kind), kind != 'into_values')


@rule(r'^<.* as Iterator>::collect$', prio=-1)
def s_collect_known(ex, st, call):
    it = deref(call.args[0])
    # collect::<Result<Vec<_>, E>>() over items whose Ok/Err variant is concrete: the first Err is returned, otherwise Ok(payloads)
    into_result = base_name(call.dst_ty) == 'Result' and generic_args(call.dst_ty) and base_name(generic_args(call.dst_ty)[0]) == 'Vec'
    if into_result:
        if not isinstance(it, Obj):
            return NotImplemented
        if it.kind == 'iter':
            src = deref(it.data.get('seq'))
            if it.data.get('adapters') or it.data.get('pos', 0) not in (0, None):
                return NotImplemented
        else:
            src = it
        its0 = seq_items(src) if isinstance(src, Obj) else None
        if its0 is None or src.data.get('extended_unknown'):
            return NotImplemented
        out = []
        for c in its0:
            e = deref(c.val)
            if not isinstance(e, EnumV) or not isinstance(e.disc, int):
                return NotImplemented
            if e.disc != 0:
                return ex.mk_enum(call.dst_ty, 'Err', [e.payloads['Err'].fields[0].val])
            out.append(Cell(e.payloads['Ok'].fields[0].val))
        return ex.mk_enum(call.dst_ty, 'Ok', [mk_seq(generic_args(call.dst_ty)[0], out, 'collected')])
    if not _known_iter(it) or not base_name(call.dst_ty) == 'Vec':
        return NotImplemented
    holder = Obj('', 'h'); holder.fields[0] = Cell(mk_seq(call.dst_ty, [], 'collected'))
    cur = [(st, it, holder.fields[0].val)]
    done = []
    guard = 0
    while cur:
        guard += 1
        if guard > 64:
            return NotImplemented
        s2, it2, acc = cur.pop()
        h = Obj('', 'h'); h.fields[0] = Cell(acc)
        s2.globals['__coll'] = h
        for s3, it3, v in _iter_step(ex, s2, it2):
            h3 = s3.globals.get('__coll')
            acc3 = h3.fields[0].val
            if s3.status != 'running':
                s3.globals.pop('__coll', None); done.append((s3, None)); continue
            if v is None:
                s3.globals.pop('__coll', None); done.append((s3, acc3)); continue
            acc3.data['items'].append(Cell(v))
            cur.append((s3, it3, acc3))
    return done


@rule(r'^(std::collections::)?(HashMap|BTreeMap)::(is_empty|len)$')
def s_map_is_empty(ex, st, call):
    m = deref(call.args[0])
    if not isinstance(m, Obj):
        return NotImplemented
    kind = call.c0.rsplit('::', 1)[-1]
    ents = _map_entries(m)
    if 'items' in m.data:
        return z3.BoolVal(len(m.data['items']) == 0) if kind == 'is_empty' else bv(len(m.data['items']))
    some = z3.Or(*[e[0] for e in ents.values()]) if ents else z3.BoolVal(False)
    if m.data.get('known_empty'):
        return z3.Not(some) if kind == 'is_empty' else ex.fresh(st, 'usize', 'maplen')
    if kind == 'len':
        return ex.fresh(st, 'usize', 'maplen')
    # unknown other entries may exist: empty ⇒ none of the known ones is present
    v = z3.Bool(f'empty:{m.name}!{next(st.fresh)}')
    st.pc.append(z3.Implies(v, z3.Not(some)))
    return v


@rule(r'^<(std::collections::)?HashMap<.*> as Default>::default$', r'^(std::collections::)?(HashMap|BTreeMap)::(new|default|with_hasher)$',
      r'^<(std::collections::)?BTreeMap<.*> as Default>::default$')
def s_map_new(ex, st, call):
    o = Obj(call.dst_ty, 'map', 'opaque'); o.data['known_empty'] = True; o.data['entries'] = {}
    return o


# =============================================================================== lsm-tree memtable / internal values
@rule(r'^(lsm_tree::)?(Memtable|memtable::Memtable)::(new|get|insert|iter|size|id|is_empty|len|range)$')
def s_memtable(ex, st, call):
    kind = call.c0.rsplit('::', 1)[-1]
    if kind == 'new':
        o = Obj('lsm_tree::Memtable', 'memtable', 'opaque'); o.data['mt_items'] = []
        st.emit(Ev('MT_NEW', obj=o, site=call.site))
        return o
    mt = deref(call.args[0])
    if not isinstance(mt, Obj):
        return NotImplemented
    if kind == 'insert':
        iv = deref(call.args[1])
        st.emit(Ev('MT_INSERT', obj=mt, args={'item': iv, **(iv.data.get('iv', {}) if isinstance(iv, Obj) else {})}, site=call.site))
        r = Obj(call.dst_ty, 'sizes', 'tuple')
        r.fields[0] = Cell(ex.fresh(st, 'u64', 'item_size')); r.fields[1] = Cell(ex.fresh(st, 'u64', 'mt_size'))
        return r
    if kind == 'get':
        res = ex.fresh(st, call.dst_ty, 'mtget')
        st.emit(Ev('MT_GET', obj=mt, args={'key': deref(call.args[1]), 'seqno': call.args[2]}, res=res, site=call.site))
        return res
    res = ex.fresh(st, call.dst_ty, 'mt_' + kind)
    st.emit(Ev('MT_' + kind.upper(), obj=mt, res=res, site=call.site))
    return res


@rule(r'^(lsm_tree::)?InternalValue::(from_components|new_tombstone|new_weak_tombstone|is_tombstone)$',
      r'^(lsm_tree::)?(InternalKey|key::InternalKey)::(is_tombstone|new)$')
def s_internal_value(ex, st, call):
    kind = call.c0.rsplit('::', 1)[-1]
    if kind == 'is_tombstone':
        v = deref(call.args[0])
        if isinstance(v, Obj):
            t = v.data.get('is_tombstone')
            if t is None:
                t = z3.Bool(f'is_tombstone:{v.name}!{next(st.fresh)}'); v.data['is_tombstone'] = t
            return t
        return NotImplemented
    o = Obj('lsm_tree::InternalValue', 'ivalue', 'opaque')
    a = call.args
    if kind == 'from_components':
        o.data['iv'] = {'key': deref(a[0]), 'value': deref(a[1]), 'seqno': a[2], 'vtype': a[3]}
        vt = a[3]
        if isinstance(vt, EnumV):
            o.data['is_tombstone'] = z3.Not(_disc_is(vt, 0))
    elif kind == 'new_tombstone':
        o.data['iv'] = {'key': deref(a[0]), 'value': None, 'seqno': a[1], 'vtype': 'Tombstone'}
        o.data['is_tombstone'] = z3.BoolVal(True)
    elif kind == 'new_weak_tombstone':
        o.data['iv'] = {'key': deref(a[0]), 'value': None, 'seqno': a[1], 'vtype': 'WeakTombstone'}
        o.data['is_tombstone'] = z3.BoolVal(True)
    return o


# =============================================================================== DashMap (snapshot tracker): bounded slot model
DASHMAP_SLOTS = 3


def dm_slots(ex, st, m):
    s = m.data.get('slots')
    if s is None:
        n = m.data.get('nslots', DASHMAP_SLOTS)
        s = []
        for i in range(n):
            s.append({'key': z3.BitVec(f'dm:{m.name}.k{i}', 64), 'val': z3.BitVec(f'dm:{m.name}.v{i}', 64),
                      'present': z3.Bool(f'dm:{m.name}.p{i}')})
        # representation invariant: present keys are pairwise distinct
        for i in range(n):
            for j in range(i + 1, n):
                st.pc.append(z3.Implies(z3.And(s[i]['present'], s[j]['present']), s[i]['key'] != s[j]['key']))
        m.data['slots'] = s
        m.data['pre_slots'] = [dict(x) for x in s]
    return s


def dm_lookup(slots, k):
    present = z3.Or(*[z3.And(s['present'], s['key'] == k) for s in slots])
    val = bv(0)
    for s in reversed(slots):
        val = z3.If(z3.And(s['present'], s['key'] == k), s['val'], val)
    return present, val


@rule(r'^(dashmap::)?DashMap::(entry|alter|retain|is_empty|len|iter|default|new|with_hasher|insert|remove|get)$', r'^<(dashmap::)?DashMap<.*> as Default>::default$')
def s_dashmap(ex, st, call):
    kind = call.c0.rsplit('::', 1)[-1]
    if kind in ('default', 'new', 'with_hasher'):
        o = Obj(call.dst_ty, 'dashmap', 'opaque')
        o.data['slots'] = [{'key': bv(0), 'val': bv(0), 'present': z3.BoolVal(False)} for _ in range(DASHMAP_SLOTS)]
        return o
    m = deref(call.args[0])
    if not isinstance(m, Obj):
        return NotImplemented
    slots = dm_slots(ex, st, m)
    if kind == 'entry':
        k = as_bv64(call.args[1])
        e = Obj(call.dst_ty, 'dm_entry', 'opaque'); e.data['dm'] = m; e.data['key'] = k
        return e
    if kind == 'is_empty':
        r = z3.Not(z3.Or(*[s['present'] for s in slots]))
        st.emit(Ev('DM_IS_EMPTY', obj=m, res=r, site=call.site))
        return r
    if kind == 'len':
        tot = bv(0)
        for s in slots:
            tot = tot + z3.If(s['present'], bv(1), bv(0))
        return tot
    if kind == 'alter':
        k = as_bv64(deref(call.args[1]))
        present, val = dm_lookup(slots, k)
        clo = call.args[2]
        out = []
        kref = Ref(Cell(k))
        for s2, v in ex.call_closure(st, clo, [kref, val]):
            if s2.status != 'running':
                out.append((s2, None)); continue
            m2 = m if s2 is st else _relocate(ex, s2, m)
            for s in m2.data['slots']:
                s['val'] = z3.If(z3.And(s['present'], s['key'] == k), as_bv64(v), s['val'])
            s2.emit(Ev('DM_ALTER', obj=m2, args={'key': k, 'old': val, 'new': as_bv64(v), 'present': present}, site=call.site))
            out.append((s2, ex.unit()))
        return out
    if kind == 'retain':
        clo = call.args[1]
        states = [(st, m, clo)]
        n = len(slots)
        for i in range(n):
            nxt = []
            for s2, m2, clo2 in states:
                if s2.status != 'running':
                    nxt.append((s2, m2, clo2)); continue
                sl = m2.data['slots'][i]
                # cells captured by &mut in the closure environment: their updates are guarded by present_i
                cobj = deref(clo2)
                caps = [deref_cell(c.val) for c in cobj.fields.values()] if isinstance(cobj, Obj) else []
                caps = [c for c in caps if c is not None]
                before = [c.val for c in caps]
                holder = Obj('', 'h'); holder.fields[0] = Cell(m2); holder.fields[1] = Cell(clo2)
                for j, c in enumerate(caps):
                    holder.fields[10 + j] = c
                s2.globals['__retain'] = holder
                vcell = Cell(sl['val'])
                for s3, keep in ex.call_closure(s2, clo2, [Ref(Cell(sl['key'])), Ref(vcell)]):
                    h3 = s3.globals.pop('__retain', None)
                    if s3.status != 'running' or h3 is None:
                        nxt.append((s3, None, None)); continue
                    m3 = h3.fields[0].val; clo3 = h3.fields[1].val
                    sl3 = m3.data['slots'][i]
                    caps3 = [h3.fields[10 + j] for j in range(len(caps))]
                    for c3, b in zip(caps3, before):
                        c3.val = ite_value(sl3['present'], c3.val, b)
                    s3.emit(Ev('DM_RETAIN_VISIT', obj=m3, args={'slot': i, 'key': sl3['key'], 'val': sl3['val'], 'present': sl3['present'], 'keep': keep}, site=call.site))
                    sl3['present'] = z3.And(sl3['present'], keep)
                    nxt.append((s3, m3, clo3))
            states = nxt
        return [(s2, ex.unit() if s2.status == 'running' else None) for s2, _m, _c in states]
    if kind == 'iter':
        o = Obj(call.dst_ty, 'dm_iter', 'opaque')
        return o
    return NotImplemented


def deref_cell(v):
    """cell a captured reference points to (None for by-value captures)"""
    if isinstance(v, Ref):
        return v.cell
    return None


@rule(r'^(dashmap::mapref::entry::)?Entry::(and_modify|or_insert)$', r'^dashmap::.*Entry.*::(and_modify|or_insert)$')
def s_dm_entry(ex, st, call):
    e = deref(call.args[0])
    if not isinstance(e, Obj) or 'dm' not in e.data:
        return NotImplemented
    kind = call.c0.rsplit('::', 1)[-1]
    m = e.data['dm']; k = e.data['key']
    slots = dm_slots(ex, st, m)
    present, val = dm_lookup(slots, k)
    if kind == 'and_modify':
        out = []
        cell = Cell(val)
        holder = Obj('', 'h'); holder.fields[0] = Cell(e); holder.fields[1] = cell
        st.globals['__dm_am'] = holder
        for s2, _v in ex.call_closure(st, call.args[1], [Ref(cell)]):
            h2 = s2.globals.pop('__dm_am', None)
            if s2.status != 'running' or h2 is None:
                out.append((s2, None)); continue
            e2 = h2.fields[0].val; newv = h2.fields[1].val
            m2 = e2.data['dm']
            for s in m2.data['slots']:
                s['val'] = z3.If(z3.And(s['present'], s['key'] == k), as_bv64(newv), s['val'])
            e2.data['was_present'] = present
            s2.emit(Ev('DM_AND_MODIFY', obj=m2, args={'key': k, 'old': val, 'new': as_bv64(newv), 'present': present}, site=call.site))
            out.append((s2, e2))
        return out
    if kind == 'or_insert':
        x = as_bv64(call.args[1])
        was = e.data.get('was_present', present)
        # insert into the first free slot when the key is absent; a full map is outside the bound
        free_before = z3.BoolVal(True)
        full = z3.And(*[s['present'] for s in slots])
        st.pc.append(z3.Or(was, z3.Not(full)))       # bound: at most len(slots) distinct instants are open at once
        taken = z3.BoolVal(False)
        for s in slots:
            use = z3.And(z3.Not(was), z3.Not(s['present']), z3.Not(taken))
            s['key'] = z3.If(use, k, s['key']); s['val'] = z3.If(use, x, s['val'])
            newp = z3.Or(s['present'], use)
            taken = z3.Or(taken, use)
            s['present'] = newp
        st.emit(Ev('DM_OR_INSERT', obj=m, args={'key': k, 'val': x, 'present': was}, site=call.site))
        return ex.fresh(st, call.dst_ty, 'refmut')
    return NotImplemented


# =============================================================================== closures through the Fn* traits
@rule(r'^<.* as (FnOnce|FnMut|Fn)<.*>>::(call_once|call_mut|call)$', prio=-1)
def s_fn_call(ex, st, call):
    f = call.args[0]
    tup = call.args[1] if len(call.args) > 1 else None
    args = []
    if isinstance(tup, Obj) and tup.kind == 'tuple':
        args = [tup.fields[i].val for i in sorted(k for k in tup.fields if isinstance(k, int))]
    target = deref(f) if isinstance(f, Ref) else f
    if isinstance(target, (FnItem,)) or (isinstance(target, Obj) and target.kind == 'closure'):
        out = []
        for s2, v in ex.call_closure(st, f, args):
            out.append((s2, v))
        return out
    # an unknown callable (generic F supplied by the caller): observable event + havoc'd result
    res = ex.fresh(st, call.dst_ty, 'fnres')
    st.emit(Ev('CALL_FN', args={'f': target, 'args': args}, res=res, site=call.site))
    return res


@rule(r'^Option::(map_or|map_or_else)$', r'^(std::result::)?Result::(map_or|map_or_else)$')
def s_map_or(ex, st, call):
    r = _as_enum(ex, st, call.args[0])
    if not isinstance(r, EnumV):
        return NotImplemented
    kind = call.c0.rsplit('::', 1)[-1]
    is_opt = base_name(r.ty) == 'Option' or call.c0.startswith('Option')
    okd, okvar = (1, 'Some') if is_opt else (0, 'Ok')
    out = []
    for s2, ok, kept in fork_cond(ex, st, _disc_is(r, okd), [r, call.args[1], call.args[2]]):
        if ok:
            pv = _payload(ex, s2, kept[0], okvar)
            for s3, v in ex.call_closure(s2, kept[2], [pv]):
                out.append((s3, v))
        elif kind == 'map_or':
            out.append((s2, kept[1]))
        else:
            args = [] if is_opt else [_payload(ex, s2, kept[0], 'Err')]
            for s3, v in ex.call_closure(s2, kept[1], args):
                out.append((s3, v))
    return out


def ite_value(cond, a, b):
    """value-level if-then-else (used to guard the effects of a summarised, conditionally executed step)"""
    if a is b:
        return a
    if z3.is_expr(a) and z3.is_expr(b):
        return z3.If(cond, a, b)
    if isinstance(a, EnumV) and isinstance(b, EnumV):
        da = bv(a.disc) if isinstance(a.disc, int) else a.disc
        db = bv(b.disc) if isinstance(b.disc, int) else b.disc
        e = EnumV(a.ty or b.ty, z3.simplify(z3.If(cond, da, db)), a.name)
        for var in set(a.payloads) | set(b.payloads):
            oa, ob_ = a.payloads.get(var), b.payloads.get(var)
            if oa is None or ob_ is None:
                e.payloads[var] = oa if oa is not None else ob_
                continue
            o = Obj(oa.ty, oa.name, 'variant')
            for i in set(oa.fields) | set(ob_.fields):
                ca, cb = oa.fields.get(i), ob_.fields.get(i)
                if ca is None or cb is None:
                    o.fields[i] = ca if ca is not None else cb
                else:
                    o.fields[i] = Cell(ite_value(cond, ca.val, cb.val))
            e.payloads[var] = o
        return e
    if isinstance(a, Obj) and isinstance(b, Obj) and a.kind == b.kind and a.kind in ('tuple', 'struct', 'variant'):
        o = Obj(a.ty, a.name, a.kind)
        for i in set(a.fields) | set(b.fields):
            ca, cb = a.fields.get(i), b.fields.get(i)
            if ca is None or cb is None:
                o.fields[i] = ca if ca is not None else cb
            else:
                o.fields[i] = Cell(ite_value(cond, ca.val, cb.val))
        return o
    return a


# =============================================================================== byte-string identity, ordering, ranges (SSI conflict detection)
def cid(v):
    """content identity of a byte-string value: clones and conversions share it"""
    d = deref(v)
    if isinstance(d, Obj):
        return d.data.get('cid', d.uid)
    return ('val', str(d))


def ord_of(ex, st, v):
    """abstract position of a byte string in the total order on keys (injective: equal strings ⇔ equal position)"""
    d = deref(v)
    if isinstance(d, Obj):
        o = d.data.get('ord')
        if o is None:
            o = z3.BitVec(f'ord:{cid(d)}', 8)
            d.data['ord'] = o
        return o
    return z3.BitVec(f'ord!{next(st.fresh)}', 8)


@rule(r'^<(lsm_tree::)?(Slice|UserKey|UserValue|StrView|ByteView) as Clone>::clone$', r'^<Vec<u8> as Clone>::clone$',
      r'^<(K|V) as Clone>::clone$', r'^<\[u8\] as ToOwned>::to_owned$', r'^core::slice::<impl \[u8\]>::to_vec$',
      r'^(lsm_tree::)?Slice::(new|from)$')
def s_bytes_clone(ex, st, call):
    a = deref(call.args[0])
    if not isinstance(a, Obj):
        return NotImplemented
    n = Obj(call.dst_ty or a.ty, a.name + "'", a.kind)
    n.data = dict(a.data)
    n.data['cid'] = cid(a)
    if 'ord' in a.data:
        n.data['ord'] = a.data['ord']
    return n


@rule(r'^<(lsm_tree::)?Slice as (PartialEq|PartialOrd|Ord)(<.*>)?>::(eq|ne|lt|le|gt|ge|cmp)$', r'^<&(lsm_tree::)?Slice as (PartialEq|PartialOrd|Ord)(<.*>)?>::(eq|ne|lt|le|gt|ge|cmp)$',
      r'^<\[u8\] as (PartialEq|PartialOrd|Ord)(<.*>)?>::(eq|ne|lt|le|gt|ge|cmp)$')
def s_bytes_cmp(ex, st, call):
    a, b = ord_of(ex, st, call.args[0]), ord_of(ex, st, call.args[1])
    k = call.c0.rsplit('::', 1)[-1]
    if k == 'cmp':
        return EnumV('std::cmp::Ordering', z3.If(z3.ULT(a, b), bv(-1), z3.If(a == b, bv(0), bv(1))), 'ord')
    return {'eq': lambda: a == b, 'ne': lambda: a != b, 'lt': lambda: z3.ULT(a, b), 'le': lambda: z3.ULE(a, b),
            'gt': lambda: z3.UGT(a, b), 'ge': lambda: z3.UGE(a, b)}[k]()


def mk_bound(ex, variant, payload=None, ty='Bound<T>'):
    e = ex.mk_enum(ty, variant, [payload] if payload is not None else None, 'bound')
    return e


@rule(r'^<.* as RangeBounds<.*>>::(start_bound|end_bound)$')
def s_range_bounds(ex, st, call):
    side = 'start' if call.c0.endswith('start_bound') else 'end'
    r = deref(call.args[0])
    q = parse_qualified(call.c0)
    selfty = q[0] if q else ''
    if not isinstance(r, Obj):
        return NotImplemented
    if base_name(selfty) == 'RangeFull' or base_name(r.ty) == 'RangeFull':
        e = mk_bound(ex, 'Unbounded', ty=call.dst_ty); e.data['bound_of'] = (r.uid, side)
        return e
    if r.kind == 'tuple' or selfty.startswith('('):
        c = r.fields.get(0 if side == 'start' else 1)
        if c is None:
            c = Cell(ex.fresh(st, 'Bound<lsm_tree::Slice>', f'{r.name}.{side}')); r.fields[0 if side == 'start' else 1] = c
        b = _as_enum(ex, st, c.val)
        if isinstance(c.val, Obj):
            c.val = b
        e = EnumV(call.dst_ty, b.disc, b.name)
        for var, o in b.payloads.items():
            n = Obj(o.ty, o.name, 'variant')
            for i, cc in o.fields.items():
                n.fields[i] = Cell(Ref(cc))
            e.payloads[var] = n
        for var in ('Included', 'Excluded'):
            if var not in e.payloads:
                _payload(ex, st, b, var)
                n = Obj('', var, 'variant'); n.fields[0] = Cell(Ref(b.payloads[var].fields[0])); e.payloads[var] = n
        e.data['bound_of'] = b.data.get('bound_of', (r.uid, side))
        b.data.setdefault('bound_of', (r.uid, side))
        return e
    bn = base_name(selfty) or base_name(r.ty)
    fixed = {('RangeFrom', 'start'): ('Included', 0), ('RangeFrom', 'end'): ('Unbounded', None),
             ('RangeTo', 'start'): ('Unbounded', None), ('RangeTo', 'end'): ('Excluded', 0),
             ('RangeToInclusive', 'start'): ('Unbounded', None), ('RangeToInclusive', 'end'): ('Included', 0),
             ('Range', 'start'): ('Included', 0), ('Range', 'end'): ('Excluded', 1)}.get((bn, side))
    if fixed:
        var, fi = fixed
        if fi is None:
            e = mk_bound(ex, 'Unbounded', ty=call.dst_ty)
        else:
            c = r.fields.get(fi)
            if c is None:
                c = Cell(ex.fresh(st, generic_args(r.ty)[0] if generic_args(r.ty) else '', f'{r.name}.{fi}')); r.fields[fi] = c
            e = mk_bound(ex, var, Ref(c), ty=call.dst_ty)
        e.data['bound_of'] = (r.uid, side)
        return e
    # generic R: a memoised symbolic bound of this range object
    key = side + '_bound'
    e = r.data.get(key)
    if e is None:
        e = EnumV(call.dst_ty, z3.BitVec(f'bound:{r.name}.{side}', 64), f'{r.name}.{side}')
        st.pc.append(z3.ULE(e.disc, bv(2)))
        kobj = Obj('K', f'{r.name}.{side}.key', 'opaque')
        for var in ('Included', 'Excluded'):
            o = Obj('', var, 'variant'); o.fields[0] = Cell(Ref(Cell(kobj))); e.payloads[var] = o
        e.data['bound_of'] = (r.uid, side)
        r.data[key] = e
    return e


@rule(r'^Bound::(map|cloned|as_ref)$', r'^<Bound<.*> as Clone>::clone$')
def s_bound_map(ex, st, call):
    b = _as_enum(ex, st, deref(call.args[0]) if call.c0.endswith(('clone', 'as_ref')) else call.args[0])
    if not isinstance(b, EnumV):
        return NotImplemented
    kind = call.c0.rsplit('::', 1)[-1]
    if kind in ('cloned', 'clone', 'as_ref'):
        e = EnumV(call.dst_ty, b.disc, b.name)
        for var, o in b.payloads.items():
            n = Obj(o.ty, o.name, 'variant')
            for i, c in o.fields.items():
                if kind == 'as_ref':
                    n.fields[i] = Cell(Ref(c))
                else:
                    pv = deref(c.val) if isinstance(c.val, Ref) else c.val
                    if isinstance(pv, Obj):
                        cp = Obj(pv.ty, pv.name, pv.kind); cp.data = dict(pv.data); cp.data['cid'] = cid(pv)
                        pv = cp
                    n.fields[i] = Cell(pv)
            e.payloads[var] = n
        e.data = dict(b.data)
        return e
    out = []
    cases = [(0, 'Included'), (1, 'Excluded'), (2, 'Unbounded')]
    states = [(st, b, call.args[1])]
    for d, var in cases:
        nxt = []
        for s2, b2, clo2 in states:
            if s2.status != 'running':
                continue
            for s3, yes, kept in fork_cond(ex, s2, _disc_is(b2, d), [b2, clo2]):
                if not yes:
                    nxt.append((s3, kept[0], kept[1])); continue
                if var == 'Unbounded':
                    e = mk_bound(ex, 'Unbounded', ty=call.dst_ty); e.data = dict(kept[0].data)
                    out.append((s3, e)); continue
                pv = _payload(ex, s3, kept[0], var)
                for s4, v in ex.call_closure(s3, kept[1], [pv]):
                    if s4.status != 'running':
                        out.append((s4, None)); continue
                    e = mk_bound(ex, var, v, ty=call.dst_ty)
                    e.data['bound_of'] = kept[0].data.get('bound_of')
                    e.data['mapped_cid'] = (cid(pv), cid(v))
                    out.append((s4, e))
        states = nxt
    return out


@rule(r'^<Option<&?(lsm_tree::)?(Slice|UserKey|UserValue)> as PartialEq>::(eq|ne)$')
def s_option_slice_eq(ex, st, call):
    a = _as_enum(ex, st, deref(call.args[0])); b = _as_enum(ex, st, deref(call.args[1]))
    if not isinstance(a, EnumV) or not isinstance(b, EnumV):
        return NotImplemented
    pa = deref(_payload(ex, st, a, 'Some')); pb = deref(_payload(ex, st, b, 'Some'))
    if isinstance(pa, Obj) and isinstance(pb, Obj) and cid(pa) == cid(pb):
        same = z3.BoolVal(True)
    else:
        same = z3.Bool(f'same_bytes!{next(st.fresh)}')      # content equality of two byte strings we know nothing about
    eq = z3.Or(z3.And(_disc_is(a, 0), _disc_is(b, 0)), z3.And(_disc_is(a, 1), _disc_is(b, 1), same))
    return eq if call.c0.endswith('::eq') else z3.Not(eq)


@rule(r'^<Option<(u64|u32|u16|u8|usize|bool)> as PartialEq>::(eq|ne)$')
def s_option_scalar_eq(ex, st, call):
    a = _as_enum(ex, st, deref(call.args[0])); b = _as_enum(ex, st, deref(call.args[1]))
    if not isinstance(a, EnumV) or not isinstance(b, EnumV):
        return NotImplemented
    pa = _payload(ex, st, a, 'Some'); pb = _payload(ex, st, b, 'Some')
    if not (z3.is_expr(pa) and z3.is_expr(pb)):
        return NotImplemented
    eq = z3.Or(z3.And(_disc_is(a, 0), _disc_is(b, 0)), z3.And(_disc_is(a, 1), _disc_is(b, 1), pa == pb))
    return eq if call.c0.endswith('::eq') else z3.Not(eq)


@rule(r'^<Bound<.*> as PartialEq>::(eq|ne)$')
def s_bound_eq(ex, st, call):
    a = _as_enum(ex, st, deref(call.args[0])); b = _as_enum(ex, st, deref(call.args[1]))
    if not (isinstance(a, EnumV) and isinstance(b, EnumV)):
        return NotImplemented
    da = bv(a.disc) if isinstance(a.disc, int) else a.disc
    db = bv(b.disc) if isinstance(b.disc, int) else b.disc
    # only the comparison with Unbounded matters to fjall; payload equality is decided through the order values
    same_payload = z3.BoolVal(True)
    for var in ('Included', 'Excluded'):
        oa, ob_ = a.payloads.get(var), b.payloads.get(var)
        if oa is not None and ob_ is not None and 0 in oa.fields and 0 in ob_.fields:
            same_payload = z3.And(same_payload, z3.Implies(da == bv({'Included': 0, 'Excluded': 1}[var]),
                                                             ord_of(ex, st, oa.fields[0].val) == ord_of(ex, st, ob_.fields[0].val)))
    eq = z3.And(da == db, z3.Or(da == bv(2), same_payload))
    return eq if call.c0.endswith('eq') else z3.Not(eq)


@rule(r'^(std::ops::)?(RangeTo|RangeToInclusive|RangeFrom|Range|RangeInclusive)::contains$')
def s_range_contains(ex, st, call):
    r = deref(call.args[0]); x = call.args[1]
    bn = call.c0.split('::')[-2]
    if not isinstance(r, Obj):
        return NotImplemented
    xo = ord_of(ex, st, x)

    def fo(i):
        c = r.fields.get(i)
        return ord_of(ex, st, c.val) if c is not None else z3.BitVec(f'ord!{next(st.fresh)}', 8)
    if bn == 'RangeTo':
        return z3.ULT(xo, fo(0))
    if bn == 'RangeToInclusive':
        return z3.ULE(xo, fo(0))
    if bn == 'RangeFrom':
        return z3.UGE(xo, fo(0))
    if bn == 'Range':
        return z3.And(z3.UGE(xo, fo(0)), z3.ULT(xo, fo(1)))
    return NotImplemented


# ---- BTreeSet<Slice> with a concrete list of symbolic members
def set_items(s):
    return s.data.get('items')


@rule(r'^(std::collections::)?BTreeSet::(contains|insert|is_empty|len|range|iter|new)$', r'^<(std::collections::)?BTreeSet<.*> as Default>::default$',
      r'^<&(std::collections::)?BTreeSet<.*> as IntoIterator>::into_iter$')
def s_btreeset(ex, st, call):
    kind = call.c0.rsplit('::', 1)[-1]
    if kind in ('new', 'default'):
        return mk_seq(call.dst_ty, [], 'btreeset')
    s = deref(call.args[0])
    if not isinstance(s, Obj):
        return NotImplemented
    items = set_items(s)
    if kind == 'insert':
        st.emit(Ev('SET_INSERT', obj=s, args={'key': deref(call.args[1])}, site=call.site))
        if items is not None:
            items.append(Cell(call.args[1]))
        return z3.Bool(f'set_inserted!{next(st.fresh)}')
    if items is None:
        return NotImplemented
    if kind == 'is_empty':
        return z3.BoolVal(len(items) == 0)
    if kind == 'len':
        return bv(len(items))
    if kind == 'contains':
        k = ord_of(ex, st, call.args[1])
        return z3.Or(*[ord_of(ex, st, c.val) == k for c in items]) if items else z3.BoolVal(False)
    if kind in ('iter', 'into_iter'):
        return mk_iter(ex, st, call.dst_ty, s, True)
    if kind == 'range':
        rng = deref(call.args[1])
        lo = _as_enum(ex, st, rng.fields[0].val) if isinstance(rng, Obj) and 0 in rng.fields else None
        hi = _as_enum(ex, st, rng.fields[1].val) if isinstance(rng, Obj) and 1 in rng.fields else None
        if lo is None or hi is None:
            return NotImplemented

        def bdisc(b):
            return bv(b.disc) if isinstance(b.disc, int) else b.disc

        def bkey(b, var):
            o = b.payloads.get(var)
            return ord_of(ex, st, o.fields[0].val) if o is not None and 0 in o.fields else z3.BitVec(f'ord!{next(st.fresh)}', 8)
        dl, dh = bdisc(lo), bdisc(hi)
        lk = z3.If(dl == bv(0), bkey(lo, 'Included'), bkey(lo, 'Excluded'))
        hk = z3.If(dh == bv(0), bkey(hi, 'Included'), bkey(hi, 'Excluded'))
        # std: BTreeSet::range panics if start > end, or start == end and both Excluded
        panics = z3.And(dl != bv(2), dh != bv(2), z3.Or(z3.UGT(lk, hk), z3.And(lk == hk, dl == bv(1), dh == bv(1))))
        out = []
        for s2, pan, kept in fork_cond(ex, st, panics, [s, lo, hi]):
            if pan:
                s2.emit(Ev('PANIC', args={'msg': 'BTreeSet::range: range start is greater than range end', 'callee': call.c0}, site=call.site))
                s2.status = 'panic'
                out.append((s2, None)); continue
            s_, lo_, hi_ = kept
            dl2, dh2 = bdisc(lo_), bdisc(hi_)
            lk2 = z3.If(dl2 == bv(0), bkey(lo_, 'Included'), bkey(lo_, 'Excluded'))
            hk2 = z3.If(dh2 == bv(0), bkey(hi_, 'Included'), bkey(hi_, 'Excluded'))
            members = []
            for c in set_items(s_):
                o = ord_of(ex, s2, c.val)
                inlo = z3.Or(dl2 == bv(2), z3.And(dl2 == bv(0), z3.UGE(o, lk2)), z3.And(dl2 == bv(1), z3.UGT(o, lk2)))
                inhi = z3.Or(dh2 == bv(2), z3.And(dh2 == bv(0), z3.ULE(o, hk2)), z3.And(dh2 == bv(1), z3.ULT(o, hk2)))
                members.append((z3.And(inlo, inhi), c))
            it = Obj(call.dst_ty, 'set_range', 'opaque'); it.data['range_members'] = members
            out.append((s2, it))
        return out
    return NotImplemented


@rule(r'^<(std::collections::)?btree_set::Range<.*> as Iterator>::next$')
def s_set_range_next(ex, st, call):
    it = deref(call.args[0])
    if not isinstance(it, Obj) or 'range_members' not in it.data:
        return NotImplemented
    mem = it.data['range_members']
    # only emptiness is observed by fjall (`.next().is_some()`): Some iff some member lies in the range
    some = z3.Or(*[c for c, _ in mem]) if mem else z3.BoolVal(False)
    e = EnumV(call.dst_ty, z3.If(some, bv(1), bv(0)), 'range_next')
    o = Obj('', 'Some', 'variant'); o.fields[0] = Cell(Ref(mem[0][1]) if mem else None); e.payloads['Some'] = o
    return e


# ---- BTreeMap<u64, _> with a concrete list of (symbolic key, value) entries: the oracle's committed transactions,
#      a conflict manager's per-keyspace tables
def kv_entries(m):
    return m.data.get('kv')


@rule(r'^(std::collections::)?BTreeMap::(range|retain|insert|get|get_mut|is_empty|len|iter|entry)$', r'^<&(std::collections::)?BTreeMap<.*> as IntoIterator>::into_iter$', prio=1)
def s_btreemap_kv(ex, st, call):
    m = deref(call.args[0])
    if not isinstance(m, Obj) or kv_entries(m) is None:
        return NotImplemented
    kv = kv_entries(m)
    kind = call.c0.rsplit('::', 1)[-1]
    if kind == 'is_empty':
        return z3.Not(z3.Or(*[e['present'] for e in kv])) if kv else z3.BoolVal(True)
    if kind == 'len':
        t = bv(0)
        for e in kv:
            t = t + z3.If(e['present'], bv(1), bv(0))
        return t
    if kind in ('get', 'get_mut'):
        k = as_bv64(deref(call.args[1]))
        out = []
        cur = [(st, m)]
        for i in range(len(kv)):
            nxt = []
            for s2, m2 in cur:
                e = kv_entries(m2)[i]
                for s3, yes, kept in fork_cond(ex, s2, z3.And(e['present'], e['key'] == k), [m2]):
                    if yes:
                        out.append((s3, ex.mk_enum(call.dst_ty, 'Some', [Ref(kv_entries(kept[0])[i]['cell'])])))
                    else:
                        nxt.append((s3, kept[0]))
            cur = nxt
        for s2, _m2 in cur:
            out.append((s2, ex.mk_enum(call.dst_ty, 'None')))
        return out
    if kind == 'insert':
        k = as_bv64(call.args[1])
        st.emit(Ev('BTM_INSERT', obj=m, args={'key': k, 'val': call.args[2]}, site=call.site))
        kv.append({'key': k, 'present': z3.BoolVal(True), 'cell': Cell(call.args[2]), 'inserted': True})
        return ex.fresh(st, call.dst_ty, 'old')
    if kind == 'range':
        rng = deref(call.args[1])
        lo = None
        if isinstance(rng, Obj) and base_name(rng.ty) == 'RangeFrom' and 0 in rng.fields:
            lo = as_bv64(rng.fields[0].val)
        st.emit(Ev('BTM_RANGE', obj=m, args={'from': lo, 'range_ty': rng.ty if isinstance(rng, Obj) else ''}, site=call.site))
        it = Obj(call.dst_ty, 'btm_range', 'opaque')
        it.data['btm'] = m; it.data['from'] = lo
        return it
    if kind in ('iter', 'into_iter'):
        # in key order: the setup provides entries sorted (keys constrained ascending)
        cells = []
        for e in kv:
            t = Obj('(&u64, &V)', 'pair', 'tuple'); t.fields[0] = Cell(Ref(Cell(e['key']))); t.fields[1] = Cell(Ref(e['cell']))
            cells.append((e['present'], Cell(t)))
        it = Obj(call.dst_ty, 'btm_iter', 'opaque'); it.data['guarded_items'] = cells; it.data['pos'] = 0
        return it
    if kind == 'retain':
        clo = call.args[1]
        states = [(st, m, clo)]
        for i in range(len(kv)):
            nxt = []
            for s2, m2, clo2 in states:
                if s2.status != 'running':
                    nxt.append((s2, m2, clo2)); continue
                e = kv_entries(m2)[i]
                holder = Obj('', 'h'); holder.fields[0] = Cell(m2); holder.fields[1] = Cell(clo2)
                s2.globals['__btm_retain'] = holder
                for s3, keep in ex.call_closure(s2, clo2, [Ref(Cell(e['key'])), Ref(e['cell'])]):
                    h3 = s3.globals.pop('__btm_retain', None)
                    if s3.status != 'running' or h3 is None:
                        nxt.append((s3, None, None)); continue
                    m3 = h3.fields[0].val
                    e3 = kv_entries(m3)[i]
                    s3.emit(Ev('BTM_RETAIN_VISIT', obj=m3, args={'key': e3['key'], 'present': e3['present'], 'keep': keep}, site=call.site))
                    e3['present'] = z3.And(e3['present'], keep)
                    nxt.append((s3, m3, h3.fields[1].val))
            states = nxt
        return [(s2, ex.unit() if s2.status == 'running' else None) for s2, _m, _c in states]
    return NotImplemented


@rule(r'^<(std::collections::)?btree_map::Iter<.*> as Iterator>::next$', prio=1)
def s_btm_iter_next(ex, st, call):
    it = deref(call.args[0])
    if not isinstance(it, Obj) or 'guarded_items' not in it.data:
        return NotImplemented
    items = it.data['guarded_items']
    out = []
    cur = [(st, it)]
    while cur:
        s2, it2 = cur.pop()
        pos = it2.data['pos']
        if pos >= len(items):
            out.append((s2, ex.mk_enum(call.dst_ty, 'None'))); continue
        present, cell = it2.data['guarded_items'][pos]
        it2.data['pos'] = pos + 1
        for s3, yes, kept in fork_cond(ex, s2, present, [it2]):
            if yes:
                out.append((s3, ex.mk_enum(call.dst_ty, 'Some', [kept[0].data['guarded_items'][pos][1].val])))
            else:
                cur.append((s3, kept[0]))
    return out


@rule(r'^<(std::collections::)?btree_map::Range<.*> as Iterator>::any$')
def s_btm_range_any(ex, st, call):
    it = deref(call.args[0])
    if not isinstance(it, Obj) or 'btm' not in it.data:
        return NotImplemented
    m = it.data['btm']; lo = it.data['from']
    clo = call.args[1]
    out = []
    states = [(st, m, clo)]
    n = len(kv_entries(m))
    for i in range(n):
        nxt = []
        for s2, m2, clo2 in states:
            if s2.status != 'running':
                continue
            e = kv_entries(m2)[i]
            inr = z3.And(e['present'], z3.UGE(e['key'], lo) if lo is not None else z3.BoolVal(True))
            for s3, yes, kept in fork_cond(ex, s2, inr, [m2, clo2]):
                if not yes:
                    nxt.append((s3, kept[0], kept[1])); continue
                e3 = kv_entries(kept[0])[i]
                pair = Obj('(&u64, &ConflictManager)', 'pair', 'tuple')
                pair.fields[0] = Cell(Ref(Cell(e3['key']))); pair.fields[1] = Cell(Ref(e3['cell']))
                holder = Obj('', 'h'); holder.fields[0] = Cell(kept[0]); holder.fields[1] = Cell(kept[1])
                s3.globals['__any'] = holder
                s3.emit(Ev('BTM_ANY_VISIT', obj=kept[0], args={'key': e3['key'], 'idx': i}, site=call.site))
                for s4, r in ex.call_closure(s3, kept[1], [pair]):
                    h4 = s4.globals.pop('__any', None)
                    if s4.status != 'running' or h4 is None:
                        out.append((s4, None)); continue
                    for s5, hit, kept5 in fork_cond(ex, s4, r, [h4.fields[0].val, h4.fields[1].val]):
                        if hit:
                            out.append((s5, z3.BoolVal(True)))
                        else:
                            nxt.append((s5, kept5[0], kept5[1]))
        states = nxt
    for s2, _m, _c in states:
        out.append((s2, z3.BoolVal(False)))
    return out


# =============================================================================== byte readers over segment buffers (codec round trips)
class SliceView:
    """reading position inside a segment buffer (stored in Ref.meta of a `&[u8]`)"""
    __slots__ = ('pos',)

    def __init__(self, pos):
        self.pos = pos

    def __deepcopy__(self, memo):
        return SliceView(self.pos)


SEG_NORM = {'le16': 'u16le', 'le32': 'u32le', 'le64': 'u64le', 'be16': 'u16be', 'be32': 'u32be', 'be64': 'u64be'}


def norm_segs(segs):
    out = []
    for s in segs:
        k = SEG_NORM.get(s[0], s[0])
        out.append((k,) + tuple(s[1:]))
    return out


def reader_target(ex, st, r):
    """(cell holding the &[u8], buffer Obj, position) for a `&mut &[u8]` / `&mut R` reader argument"""
    if not isinstance(r, Ref):
        return None
    inner = r.cell.val
    if isinstance(inner, Ref):
        buf = inner.cell.val
        pos = inner.meta.pos if isinstance(inner.meta, SliceView) else 0
        if isinstance(buf, Ref):        # &mut &mut &[u8]
            return reader_target(ex, st, inner)
        if isinstance(buf, Obj) and 'segs' in buf.data:
            return r.cell, buf, pos
    return None


def endian_of(call):
    c = call.callee
    if 'BigEndian' in c or '::<BE>' in c or 'BE>' in c:
        return 'be'
    return 'le'


@rule(r'^<.* as ReadBytesExt>::read_(u8|u16|u32|u64|f32|f64|i8)$', prio=0)
def s_read_int(ex, st, call):
    tgt = reader_target(ex, st, call.args[0])
    kind = call.c0.rsplit('_', 1)[-1]
    if tgt is None:
        # an I/O reader (file): event with symbolic result / EOF fault
        w = {'u8': 8, 'u16': 16, 'u32': 32, 'u64': 64, 'f32': 32, 'f64': 64, 'i8': 8}[kind]
        rd = deref(call.args[0])
        f = ex.contract.fault(ex, st, 'R_EOF')
        v = z3.BitVec(f'rd_{kind}!{next(st.fresh)}', w)
        st.emit(Ev('R_INT', obj=rd if isinstance(rd, Obj) else None, args={'kind': kind}, res=v, fault=f, site=call.site))
        return ex.mk_result(st, call.dst_ty, f, ok=v)
    cell, buf, pos = tgt
    segs = norm_segs(buf.data['segs'])
    if pos >= len(segs):
        err = Obj('std::io::Error', 'eof', 'opaque'); err.data['kind'] = 'UnexpectedEof'
        return ex.mk_enum(call.dst_ty, 'Err', [err])
    want = kind if kind in ('u8', 'i8') else kind + endian_of(call)
    sk, sv = segs[pos][0], segs[pos][1]
    if sk != want:
        st.emit(Ev('CODEC_MISMATCH', obj=buf, args={'wrote': sk, 'reads': want, 'pos': pos}, site=call.site))
        from .mirparse import SCALAR_TYS
        sv = z3.BitVec(f'garbage!{next(st.fresh)}', {'u8': 8, 'i8': 8, 'u16': 16, 'u32': 32, 'u64': 64, 'f32': 32, 'f64': 64}[kind])
    cell.val = Ref(cell.val.cell, SliceView(pos + 1))
    if isinstance(sv, int):
        sv = z3.BitVecVal(sv, 8)
    return ex.mk_enum(call.dst_ty, 'Ok', [sv])


@rule(r'^<.* as WriteBytesExt>::write_(f32|f64)$')
def s_write_float(ex, st, call):
    w = deref(call.args[0])
    kind = call.c0.rsplit('_', 1)[-1]
    if isinstance(w, Obj):
        buf_segs(w).append((kind + endian_of(call), call.args[1]))
        w.kind = 'bytes'
        return ex.mk_enum(call.dst_ty, 'Ok', [ex.unit()])
    return NotImplemented


@rule(r'^<(lsm_tree::)?CompressionType as (lsm_tree::coding::)?Decode>::decode_from$')
def s_comp_decode(ex, st, call):
    tgt = reader_target(ex, st, call.args[0])
    if tgt is None:
        return NotImplemented
    cell, buf, pos = tgt
    segs = norm_segs(buf.data['segs'])
    if pos >= len(segs):
        return ex.mk_enum(call.dst_ty, 'Err', [Obj('lsm_tree::Error', 'eof', 'opaque')])
    sk, sv = segs[pos][0], segs[pos][1]
    if sk != 'u8':
        st.emit(Ev('CODEC_MISMATCH', obj=buf, args={'wrote': sk, 'reads': 'u8(compression tag)', 'pos': pos}, site=call.site))
        sv = z3.BitVec(f'garbage!{next(st.fresh)}', 8)
    if isinstance(sv, int):
        sv = z3.BitVecVal(sv, 8)
    cell.val = Ref(cell.val.cell, SliceView(pos + 1))
    ok = z3.Or(sv == 0, sv == 1)
    e = EnumV(call.dst_ty, z3.If(ok, bv(0), bv(1)), 'ct_res')
    ct = EnumV('lsm_tree::CompressionType', z3.ZeroExt(56, sv), 'ct')
    o = Obj('Ok', 'Ok', 'variant'); o.fields[0] = Cell(ct); e.payloads['Ok'] = o
    return e


@rule(r'^<(lsm_tree::)?CompressionType as (lsm_tree::coding::)?Encode>::encode_into_vec$')
def s_comp_encode_vec(ex, st, call):
    c = _as_enum(ex, st, deref(call.args[0]))
    d = bv(c.disc) if isinstance(c.disc, int) else c.disc
    o = Obj('Vec<u8>', 'ct_bytes', 'bytes'); o.data['segs'] = [('u8', z3.Extract(7, 0, d))]
    return o


# ---- lsm-tree policy newtypes around Vec<T>
POLICY_TYPES = r'(BlockSizePolicy|CompressionPolicy|FilterPolicy|HashRatioPolicy|PinningPolicy|PartitioningPolicy|RestartIntervalPolicy)'


@rule(r'^<(lsm_tree::config::|config::)?' + POLICY_TYPES + r' as Deref>::deref$')
def s_policy_deref(ex, st, call):
    p = deref(call.args[0])
    if isinstance(p, Obj):
        return Ref(call.args[0].cell if isinstance(call.args[0], Ref) else Cell(p), ex.contract.length_of(ex, st, p))
    return NotImplemented


@rule(r'^(lsm_tree::config::|config::)?' + POLICY_TYPES + r'::(new|all)$')
def s_policy_new(ex, st, call):
    v = deref(call.args[0])
    kind = call.c0.rsplit('::', 1)[-1]
    o = Obj(call.dst_ty, 'policy', 'seq')
    if kind == 'all':
        o.data['items'] = [Cell(call.args[0])]
    elif isinstance(v, Obj) and 'items' in v.data:
        o.data['items'] = list(v.data['items'])
    elif isinstance(v, Obj) and v.kind == 'array' and v.data.get('len') is not None:
        o.data['items'] = [v.fields[('i', i)] for i in range(v.data['len'])]
    elif isinstance(v, Obj) and 'segs' in v.data and all(s[0] == 'u8' for s in v.data['segs']):
        o.data['items'] = [Cell(z3.BitVecVal(s[1], 8) if isinstance(s[1], int) else s[1]) for s in v.data['segs']]
    else:
        return NotImplemented
    return o


@rule(r'^<(\[u8; \d+\]|Vec<u8>|&\[u8\]|\[u8\]|&\[u8; \d+\]) as Into<(lsm_tree::)?(Slice|UserValue|UserKey)>>::into$',
      r'^<(lsm_tree::)?Slice as From<(\[u8; \d+\]|Vec<u8>|&\[u8\]|&\[u8; \d+\])>>::from$', prio=1)
def s_bytes_into_slice(ex, st, call):
    v = deref(call.args[0])
    if not isinstance(v, Obj):
        return NotImplemented
    o = Obj('lsm_tree::Slice', v.name, 'bytes')
    o.data = dict(v.data)
    if 'segs' not in o.data:
        if v.kind == 'array' and v.data.get('len') is not None:
            o.data['segs'] = [('u8', v.fields[('i', i)].val) for i in range(v.data['len'])]
        else:
            o.data['segs'] = [('obj', v)]
    o.data['cid'] = cid(v)
    return o


@rule(r'^<(lsm_tree::)?Slice as PartialEq<\[u8; \d+\]>>::(eq|ne)$', r'^<(lsm_tree::)?Slice as PartialEq<&?\[u8(; \d+)?\]>>::(eq|ne)$', prio=1)
def s_slice_eq_array(ex, st, call):
    a = deref(call.args[0]); b = deref(call.args[1])
    if isinstance(a, Obj) and 'segs' in a.data and isinstance(b, Obj) and b.kind == 'array' and b.data.get('len') is not None:
        segs = norm_segs(a.data['segs'])
        n = b.data['len']
        if len(segs) == n and all(s[0] == 'u8' for s in segs):
            eq = z3.And(*[(z3.BitVecVal(s[1], 8) if isinstance(s[1], int) else s[1]) == b.fields[('i', i)].val for i, s in enumerate(segs)])
        else:
            st.emit(Ev('CODEC_MISMATCH', obj=a, args={'wrote': [s[0] for s in segs], 'reads': f'[u8; {n}] comparison'}, site=call.site))
            eq = z3.Bool(f'cmp!{next(st.fresh)}')
        return eq if call.c0.endswith('eq') else z3.Not(eq)
    return NotImplemented


@rule(r'^<(lsm_tree::)?Slice as Index<RangeFull>>::index$', r'^<(lsm_tree::)?Slice as Deref>::deref$', prio=1)
def s_slice_full_index(ex, st, call):
    a = call.args[0]
    if isinstance(a, Ref):
        return Ref(a.cell, SliceView(0)) if isinstance(deref(a), Obj) and 'segs' in deref(a).data else a
    return NotImplemented


@rule(r'^<(std::ops::)?Range<(u8|u16|u32|u64|usize)> as Iterator>::next$', r'^<(std::ops::)?Range<(u8|u16|u32|u64|usize)> as IntoIterator>::into_iter$', prio=1)
def s_range_iter(ex, st, call):
    if call.c0.endswith('into_iter'):
        return call.args[0]
    r = deref(call.args[0])
    if not isinstance(r, Obj) or 0 not in r.fields or 1 not in r.fields:
        return NotImplemented
    lo, hi = r.fields[0].val, r.fields[1].val
    if not (z3.is_bv(lo) and z3.is_bv(hi)):
        return NotImplemented
    out = []
    for s2, more, kept in fork_cond(ex, st, z3.ULT(lo, hi), [r]):
        r2 = kept[0]
        if more:
            cur = r2.fields[0].val
            r2.fields[0].val = z3.simplify(cur + 1)
            out.append((s2, ex.mk_enum(call.dst_ty, 'Some', [cur])))
        else:
            out.append((s2, ex.mk_enum(call.dst_ty, 'None')))
    return out


# ---- `vec![a, b, ..]` lowering: Box::new_uninit + array write through the raw pointer + box_assume_init_into_vec_unsafe
@rule(r'^Box::new_uninit$')
def s_box_new_uninit(ex, st, call):
    return Obj(call.dst_ty, 'box_uninit', 'struct')


@rule(r'^(std::boxed::)?box_assume_init_into_vec_unsafe$')
def s_box_into_vec(ex, st, call):
    b = call.args[0]
    try:
        p = b.fields[0].val.fields[0].val            # Box.0 (Unique) .0 (NonNull)
        m = p.fields['*'].val                        # pointee: MaybeUninit<[T; N]>
        arr = m.fields[1].val.fields[0].val.fields[0].val
    except (AttributeError, KeyError):
        return NotImplemented
    if isinstance(arr, Obj) and arr.data.get('len') is not None:
        v = Obj(call.dst_ty, 'vec', 'seq')
        v.data['items'] = [arr.fields[('i', i)] for i in range(arr.data['len'])]
        return v
    return NotImplemented


@rule(r'^<Vec<.*> as Extend<.*>>::extend$')
def s_vec_extend(ex, st, call):
    v = deref(call.args[0]); src = deref(call.args[1])
    if isinstance(v, Obj) and v.kind == 'bytes' and 'segs' in v.data and 'items' not in v.data and isinstance(src, Obj) and 'segs' in src.data:
        v.data['segs'].extend(src.data['segs'])
        return ex.unit()
    if isinstance(v, Obj) and 'items' in v.data and isinstance(src, Obj):
        if src.kind == 'array' and src.data.get('len') is not None:
            v.data['items'].extend(src.fields[('i', i)] for i in range(src.data['len']))
            return ex.unit()
        if 'items' in src.data and src.kind != 'iter':
            v.data['items'].extend(src.data['items'])
            return ex.unit()
        if src.kind == 'iter' and seq_items(src.data.get('seq')) is not None and src.data.get('map') is None:
            its = seq_items(src.data['seq'])
            v.data['items'].extend(its[src.data['pos']:src.data['end']])
            return ex.unit()
        if src.kind == 'iter' and seq_items(src.data.get('seq')) is not None and src.data.get('map') is not None:
            its = seq_items(src.data['seq'])[src.data['pos']:src.data['end']]
            cur = [(st, v, src)]
            for i in range(len(its)):
                nxt = []
                for s2, v2, src2 in cur:
                    if s2.status != 'running':
                        nxt.append((s2, v2, src2)); continue
                    item = seq_items(src2.data['seq'])[src2.data['pos'] + i]
                    arg = Ref(item) if src2.data.get('by_ref') else item.val
                    holder = Obj('', 'h'); holder.fields[0] = Cell(v2); holder.fields[1] = Cell(src2)
                    s2.globals['__ext'] = holder
                    for s3, r in ex.call_closure(s2, src2.data['map'], [arg]):
                        h3 = s3.globals.pop('__ext', None)
                        if s3.status != 'running' or h3 is None:
                            nxt.append((s3, None, None)); continue
                        h3.fields[0].val.data['items'].append(Cell(r))
                        nxt.append((s3, h3.fields[0].val, h3.fields[1].val))
                cur = nxt
            return [(s2, ex.unit() if s2.status == 'running' else None) for s2, _v, _s in cur]
        st.emit(Ev('VEC_EXTEND_UNKNOWN', obj=v, args={'src': src}, site=call.site))
        v.data['extended_unknown'] = True
        return ex.unit()
    return NotImplemented


@rule(r'^core::f32::<impl f32>::to_le_bytes$', r'^core::f64::<impl f64>::to_le_bytes$')
def s_float_to_le(ex, st, call):
    o = Obj(call.dst_ty, 'bytes_of', 'bytes')
    o.data['segs'] = [('f32le' if 'f32' in call.c0 else 'f64le', call.args[0])]
    o.data['len'] = 4 if 'f32' in call.c0 else 8
    return o


@rule(r'^<str as PartialEq>::(eq|ne)$', r'^<&str as PartialEq>::(eq|ne)$', r'^<str as PartialEq<str>>::(eq|ne)$')
def s_str_eq(ex, st, call):
    a, b = deref(call.args[0]), deref(call.args[1])
    sa = a.data.get('str') if isinstance(a, Obj) else None
    sb = b.data.get('str') if isinstance(b, Obj) else None
    if sa is not None and sb is not None:
        r = z3.BoolVal(sa == sb)
        return r if call.c0.endswith('eq') else z3.Not(r)
    return NotImplemented


@rule(r'^(std::str::|core::str::)?from_utf8$', r'^core::str::converts::from_utf8$')
def s_from_utf8(ex, st, call):
    a = deref(call.args[0])
    if isinstance(a, Obj) and ('str' in a.data):
        return ex.mk_enum(call.dst_ty, 'Ok', [Ref(Cell(a))])
    if isinstance(a, Obj) and 'segs' in a.data and len(a.data['segs']) == 1 and a.data['segs'][0][0] == 'obj' and 'str' in a.data['segs'][0][1].data:
        return ex.mk_enum(call.dst_ty, 'Ok', [Ref(Cell(a.data['segs'][0][1]))])
    return NotImplemented


@rule(r'^Option::transpose$')
def s_opt_transpose(ex, st, call):
    o = _as_enum(ex, st, call.args[0])
    if not isinstance(o, EnumV):
        return NotImplemented
    out = []
    for s2, some, kept in fork_cond(ex, st, _disc_is(o, 1), [o]):
        if not some:
            out.append((s2, ex.mk_enum(call.dst_ty, 'Ok', [ex.mk_enum('Option<T>', 'None')])))
            continue
        r = _as_enum(ex, s2, _payload(ex, s2, kept[0], 'Some'))
        for s3, ok, kept3 in fork_cond(ex, s2, _disc_is(r, 0), [r]):
            if ok:
                out.append((s3, ex.mk_enum(call.dst_ty, 'Ok', [ex.mk_enum('Option<T>', 'Some', [_payload(ex, s3, kept3[0], 'Ok')])])))
            else:
                out.append((s3, ex.mk_enum(call.dst_ty, 'Err', [_payload(ex, s3, kept3[0], 'Err')])))
    return out


@rule(r'^<.* as Clone>::clone$', prio=-2)
def s_generic_clone(ex, st, call):
    """clone of an environment value we know nothing about: a copy that keeps the content identity"""
    fn, _ = ex.resolve(call.callee, call.frame)
    if fn is not None:
        return NotImplemented
    a = deref(call.args[0])
    if isinstance(a, Obj):
        n = Obj(a.ty, a.name + "'", a.kind)
        n.data = dict(a.data); n.data['cid'] = cid(a)
        n.fields = dict(a.fields) if a.kind in ('seq',) else {}
        return n
    if isinstance(a, EnumV) or z3.is_expr(a):
        return a
    return NotImplemented


# =============================================================================== small byte slices with symbolic content (version marker)
def byte_elems(o):
    """list of 8-bit values of a byte buffer made only of single-byte segments, else None"""
    if not isinstance(o, Obj):
        return None
    if o.kind == 'array' and o.data.get('len') is not None and all(('i', i) in o.fields for i in range(o.data['len'])):
        return [o.fields[('i', i)].val for i in range(o.data['len'])]
    if 'bytes' in o.data and isinstance(o.data['bytes'], str) and 'segs' not in o.data:
        raw = o.data['bytes'].encode('latin1').decode('unicode_escape').encode('latin1')
        return [z3.BitVecVal(b, 8) for b in raw]
    segs = o.data.get('segs')
    if segs is not None and all(s[0] == 'u8' for s in segs):
        return [z3.BitVecVal(s[1], 8) if isinstance(s[1], int) else s[1] for s in segs]
    if segs is not None and len(segs) == 1 and segs[0][0] == 'const' and isinstance(segs[0][1], str):
        raw = segs[0][1].encode('latin1').decode('unicode_escape').encode('latin1')
        return [z3.BitVecVal(b, 8) for b in raw]
    return None


@rule(r'^core::slice::<impl \[u8\]>::get$', prio=1)
def s_slice_get(ex, st, call):
    a = call.args[0]
    buf = deref(a)
    el = byte_elems(buf)
    if el is None:
        return NotImplemented
    base = a.meta.pos if isinstance(a, Ref) and isinstance(a.meta, SliceView) else 0
    el = el[base:]
    idx = call.args[1]
    if isinstance(idx, Obj) and 0 in idx.fields and 1 in idx.fields:      # Range<usize>
        lo, hi = z3.simplify(idx.fields[0].val), z3.simplify(idx.fields[1].val)
        if z3.is_bv_value(lo) and z3.is_bv_value(hi):
            lo, hi = lo.as_long(), hi.as_long()
            if lo <= hi <= len(el):
                v = Obj('[u8]', 'subslice', 'bytes'); v.data['segs'] = [('u8', x) for x in el[lo:hi]]
                return ex.mk_enum(call.dst_ty, 'Some', [Ref(Cell(v), SliceView(0))])
            return ex.mk_enum(call.dst_ty, 'None')
    if z3.is_bv(idx):
        i = z3.simplify(idx)
        if z3.is_bv_value(i):
            if i.as_long() < len(el):
                return ex.mk_enum(call.dst_ty, 'Some', [Ref(Cell(el[i.as_long()]))])
            return ex.mk_enum(call.dst_ty, 'None')
    return NotImplemented


@rule(r'^<\[u8\] as PartialEq<\[u8; \d+\]>>::(eq|ne)$', r'^<&?\[u8\] as PartialEq<&?\[u8(; \d+)?\]>>::(eq|ne)$', r'^<\[u8; \d+\] as PartialEq(<.*>)?>::(eq|ne)$', prio=1)
def s_bytes_eq(ex, st, call):
    a, b = deref(call.args[0]), deref(call.args[1])
    ea, eb = byte_elems(a), byte_elems(b)
    if ea is None or eb is None:
        return NotImplemented
    if isinstance(call.args[0], Ref) and isinstance(call.args[0].meta, SliceView):
        ea = ea[call.args[0].meta.pos:]
    if len(ea) != len(eb):
        r = z3.BoolVal(False)
    else:
        r = z3.And(*[x == y for x, y in zip(ea, eb)]) if ea else z3.BoolVal(True)
    return r if call.c0.endswith('eq') else z3.Not(r)


@rule(r'^(core::intrinsics::|std::intrinsics::)?discriminant_value$')
def s_discriminant_value(ex, st, call):
    v = deref(call.args[0])
    if isinstance(v, Obj):
        v = ex.to_enum(st, v)
    if isinstance(v, EnumV):
        return bv(v.disc) if isinstance(v.disc, int) else v.disc
    return NotImplemented


@rule(r'^<.* as PartialEq(<.*>)?>::ne$', prio=-1)
def s_default_ne(ex, st, call):
    """PartialEq::ne is a provided method: !self.eq(other)"""
    eq = call.callee[:-4] + '::eq' if call.callee.endswith('::ne') else None
    if eq is None:
        return NotImplemented
    fn, sty = ex.resolve(eq, call.frame)
    if fn is None and ex.contract.lookup(strip_turbofish(eq), eq) is None:
        return NotImplemented
    out = []
    for s2, v in ex.do_call(st, call.depth, eq, call.args, 'bool'):
        out.append((s2, z3.Not(v) if z3.is_bool(v) else v))
    return out


@rule(r'^File::(try_lock|lock|unlock|try_lock_shared)$')
def s_file_lock(ex, st, call):
    f = deref(call.args[0])
    kind = call.c0.rsplit('::', 1)[-1]
    res = ex.fresh(st, call.dst_ty, kind)
    st.emit(Ev('F_' + kind.upper(), obj=f if isinstance(f, Obj) else None, res=res, site=call.site))
    return res


@rule(r'^(std::ops::)?RangeInclusive::new$', r'^<(std::ops::)?RangeInclusive<(u8|u16|u32|u64|usize)> as Iterator>::next$',
      r'^<(std::ops::)?RangeInclusive<(u8|u16|u32|u64|usize)> as IntoIterator>::into_iter$', prio=1)
def s_range_inclusive(ex, st, call):
    kind = call.c0.rsplit('::', 1)[-1]
    if kind == 'new':
        o = Obj(call.dst_ty, 'range_incl', 'struct')
        o.data['lo'] = call.args[0]; o.data['hi'] = call.args[1]; o.data['done'] = z3.BoolVal(False)
        return o
    if kind == 'into_iter':
        return call.args[0]
    r = deref(call.args[0])
    if not isinstance(r, Obj) or 'lo' not in r.data:
        return NotImplemented
    lo, hi, done = r.data['lo'], r.data['hi'], r.data['done']
    out = []
    for s2, more, kept in fork_cond(ex, st, z3.And(z3.Not(done), z3.ULE(lo, hi)), [r]):
        r2 = kept[0]
        if more:
            cur = r2.data['lo']
            r2.data['done'] = z3.simplify(cur == r2.data['hi'])
            r2.data['lo'] = z3.simplify(z3.If(cur == r2.data['hi'], cur, cur + 1))
            out.append((s2, ex.mk_enum(call.dst_ty, 'Some', [cur])))
        else:
            out.append((s2, ex.mk_enum(call.dst_ty, 'None')))
    return out


@rule(r'^<.* as TryInto<.*>>::try_into$', prio=-1)
def s_try_into(ex, st, call):
    """blanket impl: <A as TryInto<B>>::try_into == <B as TryFrom<A>>::try_from"""
    q = parse_qualified(call.c0)
    if not q or not q[1]:
        return NotImplemented
    selfty, trait = q[0], q[1]
    ga = generic_args(trait)
    if not ga:
        return NotImplemented
    alt = f'<{ga[0]} as TryFrom<{selfty}>>::try_from'
    fn, sty = ex.resolve(alt, call.frame)
    if fn is not None:
        return list(ex.call_fn(st, fn, call.args, sty))
    summ = ex.contract.lookup(strip_turbofish(alt), alt)
    if summ is not None and summ is not s_try_into:
        return list(ex.do_call(st, call.depth, alt, call.args, call.dst_ty))
    return NotImplemented
