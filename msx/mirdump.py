"""Regenerate the MIR of fjall from /repo's current working tree.

The dump is produced by the pre-installed nightly (`-Zunpretty=mir`) on a
scratch copy of /repo (never inside /repo or /verif).  It is keyed by a hash of
the sources so that several checks run back to back share one rustc call; a
cache hit only skips the rustc call, never the analysis.
"""
import hashlib, os, subprocess, shutil, sys, time, fcntl

REPO = os.environ.get('VERIF_REPO', '/repo')
CACHE = os.environ.get('VERIF_CACHE', '/var/tmp/fjall-verif-cache')
NIGHTLY_FLAGS = ['-Zunpretty=mir', '-C', 'debug-assertions=off']


def source_files(repo=REPO):
    out = []
    for base in ('src',):
        for root, _dirs, files in os.walk(os.path.join(repo, base)):
            for f in sorted(files):
                out.append(os.path.join(root, f))
    for f in ('Cargo.toml', 'Cargo.lock'):
        p = os.path.join(repo, f)
        if os.path.exists(p):
            out.append(p)
    return sorted(out)


def source_hash(repo=REPO, extra=b''):
    h = hashlib.sha256()
    for p in source_files(repo):
        h.update(os.path.relpath(p, repo).encode())
        h.update(b'\0')
        with open(p, 'rb') as fh:
            h.update(fh.read())
        h.update(b'\0')
    h.update(extra)
    return h.hexdigest()[:20]


def scratch_copy(dst, repo=REPO):
    """rsync /repo (without target/ and .git) to dst."""
    os.makedirs(dst, exist_ok=True)
    subprocess.check_call(['rsync', '-a', '--delete', '--exclude', 'target', '--exclude', '.git',
                           repo.rstrip('/') + '/', dst.rstrip('/') + '/'])


def get_mir(repo=REPO, features_default=True, verbose=True, debug_assertions=False):
    """Returns (mir_text, info dict).  debug_assertions=True dumps the dev profile as `cargo build` / `cargo test` compile it
    (debug_assert! bodies present); the default is the same code with debug assertions compiled out, as in a release build."""
    os.makedirs(CACHE, exist_ok=True)
    key = source_hash(repo, (b'default' if features_default else b'nodefault') + (b'+dbgassert' if debug_assertions else b''))
    path = os.path.join(CACHE, f'mir-{key}.txt')
    info = {'source_hash': key, 'cached': False, 'rustc_s': 0.0}
    lock = open(os.path.join(CACHE, 'mir.lock'), 'w')
    fcntl.flock(lock, fcntl.LOCK_EX)
    try:
        if os.path.exists(path) and os.path.getsize(path) > 100000:
            info['cached'] = True
            return open(path).read(), info
        scratch = os.path.join(CACHE, 'mir-src' if os.path.realpath(repo) == '/repo' else 'mir-src-' + hashlib.sha256(os.path.realpath(repo).encode()).hexdigest()[:8])
        scratch_copy(scratch, repo)
        t0 = time.time()
        env = dict(os.environ, CARGO_NET_OFFLINE='true')
        cmd = ['cargo', '+nightly', 'rustc', '--offline', '--lib',
               '--target-dir', os.path.join(CACHE, 'mir-target')]
        if not features_default:
            cmd.append('--no-default-features')
        cmd += ['--'] + (NIGHTLY_FLAGS if not debug_assertions else ['-Zunpretty=mir', '-C', 'debug-assertions=on'])
        # touch lib.rs so that cargo re-runs rustc (otherwise stdout is empty)
        os.utime(os.path.join(scratch, 'src', 'lib.rs'))
        p = subprocess.run(cmd, cwd=scratch, env=env, stdout=subprocess.PIPE, stderr=subprocess.PIPE, text=True)
        info['rustc_s'] = round(time.time() - t0, 1)
        if p.returncode != 0 or len(p.stdout) < 100000:
            sys.stderr.write(p.stderr[-4000:])
            raise RuntimeError('MIR dump failed (does /repo compile?)')
        tmp = path + '.tmp%d' % os.getpid()
        with open(tmp, 'w') as fh:
            fh.write(p.stdout)
        os.replace(tmp, path)
        # keep the cache small: drop older dumps
        dumps = sorted((f for f in os.listdir(CACHE) if f.startswith('mir-') and f.endswith('.txt')),
                       key=lambda f: os.path.getmtime(os.path.join(CACHE, f)))
        for f in dumps[:-8]:
            os.remove(os.path.join(CACHE, f))
        if scratch != os.path.join(CACHE, 'mir-src'):
            shutil.rmtree(scratch, ignore_errors=True)
        return p.stdout, info
    finally:
        fcntl.flock(lock, fcntl.LOCK_UN)
        lock.close()


if __name__ == '__main__':
    t, i = get_mir()
    print(len(t), i)
