"""interactive lab: run the executor on a function and print paths"""
import sys, time, re
from . import mirdump, mirparse, srcinfo, symex, contract

_cache = {}
def load():
    if 'p' not in _cache:
        mir, info = mirdump.get_mir()
        _cache['p'] = mirparse.Program(mir); _cache['s'] = srcinfo.SrcInfo(); _cache['info'] = info
    return _cache['p'], _cache['s']

def show(paths, events=True, maxp=50):
    import z3
    for i, p in enumerate(paths[:maxp]):
        ret = p.ret
        print(f'--- path {i}: status={p.status} ret={ret!r} notes={p.notes}')
        print('    pc:', [str(z3.simplify(c))[:100] for c in p.pc][:12])
        if events:
            for e in p.events:
                print('     ', e)

def run(pattern, **kw):
    prog, src = load()
    fn = prog.find(pattern)
    ex = symex.Executor(prog, src, contract.Contract(), **kw)
    t0 = time.time()
    paths = ex.run(fn)
    print(f'=== {fn.key}: {len(paths)} paths in {time.time()-t0:.2f}s; solver calls {ex.stats["solver_calls"]} ({ex.stats["solver_s"]:.2f}s)')
    return ex, paths

if __name__ == '__main__':
    ex, paths = run(sys.argv[1])
    show(paths, maxp=int(sys.argv[2]) if len(sys.argv) > 2 else 50)
    print('HAVOC:', sorted(ex.stats['havoc'].items(), key=lambda x: -x[1]))
