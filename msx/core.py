"""Check context shared by all property modules: MIR program, executors, obligations, queries, evidence,
known findings, native replay, exit codes."""
import os, sys, json, time, re, subprocess, hashlib, shutil
import z3
from . import mirdump, mirparse, srcinfo, symex, contract

VERIF = os.path.dirname(os.path.dirname(os.path.abspath(__file__)))
CACHE = mirdump.CACHE
REPO = mirdump.REPO


class Obligation:
    def __init__(self, oid, desc, functions=()):
        self.id = oid; self.desc = desc; self.functions = list(functions)
        self.status = 'undecided'     # discharged | violated | known | unconfirmed | undecided
        self.queries = 0; self.unsat = 0; self.sat = 0; self.unknown = 0
        self.detail = None; self.role = None; self.replay = None; self.sample = None
        self.reach = 0                # reachability witnesses (anchor events seen on feasible paths)
        self.t_start = time.time(); self.wall = None

    def as_dict(self):
        d = {'id': self.id, 'desc': self.desc, 'status': self.status, 'functions': self.functions,
             'queries': self.queries, 'unsat': self.unsat, 'sat': self.sat, 'reach_witnesses': self.reach,
             'wall_s': round(self.wall, 2) if self.wall is not None else None}
        if self.detail:
            d['detail'] = self.detail
        if self.role:
            d['role'] = self.role
        if self.sample:
            d['sample'] = self.sample
        return d


class Ctx:
    def __init__(self, prop, tier='quick', seed=0):
        self.prop = prop; self.tier = tier; self.seed = seed
        self.t0 = time.time()
        self.obligations = []
        self.assumptions = []
        self.functions_encoded = {}
        self.solver_s = 0.0
        self.queries = 0
        self.samples = []
        self.violations = []          # (role, text, replay_path)
        self.known_hits = []
        self.unconfirmed = []
        self.extra = {}
        self.paths_total = 0
        self.events_total = 0
        self.kani = []
        self.traces_validated = 0
        self._prog = None
        self._run_cache = {}
        self._replay_bin = None
        self.known = load_known_findings()
        self.mir_info = {}

    # ---------------- program / executor
    def dev_profile(self):
        """context manager: inside it, executors run on the MIR of the dev profile (debug assertions compiled in), as `cargo test` and debug builds run it"""
        import contextlib

        @contextlib.contextmanager
        def cm():
            saved = (self._prog, getattr(self, '_src', None), self._run_cache, getattr(self, '_dbg', False))
            other = getattr(self, '_dev_saved', None)
            self._prog, self._src, self._run_cache = other if other else (None, None, {})
            self._dbg = True
            try:
                yield self
            finally:
                self._dev_saved = (self._prog, self._src, self._run_cache)
                self._prog, self._src, self._run_cache, self._dbg = saved
        return cm()

    @property
    def prog(self):
        if self._prog is None:
            mir, info = mirdump.get_mir(debug_assertions=getattr(self, '_dbg', False))
            if getattr(self, '_dbg', False):
                self.mir_info_dev = info
            else:
                self.mir_info = info
            self._prog = mirparse.Program(mir)
            self._src = srcinfo.SrcInfo(REPO)
            return self._prog
        return self._prog

    @property
    def _unused_prog(self):
        if self._prog is None:
            mir, info = mirdump.get_mir()
            self.mir_info = info
            self._prog = mirparse.Program(mir)
            self._src = srcinfo.SrcInfo(REPO)
        return self._prog

    @property
    def src(self):
        self.prog
        return self._src

    def executor(self, **kw):
        overrides = kw.pop('overrides', None)
        disabled = kw.pop('disabled_faults', ())
        # the thorough tier explores larger bounds: give the executor more time (an exhausted budget is reported as undecided, never as a pass)
        scale = float(os.environ.get('VERIF_TIME_SCALE', '1')) * (6 if self.tier == 'thorough' else 1)
        kw['timeout_s'] = int(kw.get('timeout_s', 120) * scale)
        if self.tier == 'thorough':
            kw['max_paths'] = max(kw.get('max_paths', 4000), 20000)
        ex = symex.Executor(self.prog, self.src, contract.Contract(overrides, disabled), **kw)
        return ex

    def run(self, pattern, args=None, setup=None, cache_key=None, **kw):
        """execute the unique function matching `pattern`; returns (executor, paths)"""
        if cache_key is not None:
            ck = (pattern, cache_key, repr(sorted(kw.items())))
            if ck in self._run_cache:
                return self._run_cache[ck]
            r = self.run(pattern, args=args, setup=setup, **kw)
            self._run_cache[ck] = r
            return r
        fn = self.prog.find(pattern)
        ex = self.executor(**kw)
        t0 = time.time()
        paths = ex.run(fn, args=args, setup=setup)
        self.functions_encoded[fn.key] = self.prog.hashes.get(fn.name, '')
        for k in ex.stats['inlined']:
            f2 = [f for f in self.prog.by_norm.get(k, [])]
            if f2:
                self.functions_encoded[k] = self.prog.hashes.get(f2[0].name, '')
        self.solver_s += ex.stats['solver_s']
        self.queries += ex.stats['solver_calls']
        self.paths_total += len(paths)
        self.events_total += sum(len(p.events) for p in paths)
        return ex, paths

    # ---------------- solver queries on paths
    def sat(self, constraints, ob=None):
        s = z3.Solver()
        s.set('timeout', 60000)
        s.add(*constraints)
        t0 = time.time()
        r = s.check()
        self.solver_s += time.time() - t0
        self.queries += 1
        if ob is not None:
            ob.queries += 1
            if r == z3.unsat:
                ob.unsat += 1
            elif r == z3.sat:
                ob.sat += 1
            else:
                ob.unknown += 1
        self._cross_check(s, r, ob)
        return r, (s.model() if r == z3.sat else None)

    def _cross_check(self, solver, r, ob):
        """thorough tier (or VERIF_CROSSCHECK=1): a sample of the obligation queries is exported as SMT-LIB2 and decided again by cvc5;
        a disagreement makes the obligation undecided (never a pass, never an alarm) and is recorded in the evidence"""
        if not (self.tier == 'thorough' or os.environ.get('VERIF_CROSSCHECK') == '1') or r not in (z3.sat, z3.unsat):
            return
        self._cc_seen = getattr(self, '_cc_seen', 0) + 1
        cc = self.extra.setdefault('cross_check', {'solver': 'cvc5', 'queries': 0, 'agree': 0, 'disagree': 0, 'inconclusive': 0, 'examples': []})
        # deterministic sample: the first 10 queries, then every 50th, at most 60 per run
        if cc['queries'] >= 60 or not (self._cc_seen <= 10 or self._cc_seen % 50 == 0):
            return
        try:
            smt = '(set-logic ALL)\n' + solver.to_smt2()
            p = subprocess.run(['cvc5', '--lang', 'smt2', '--tlimit=20000'], input=smt, stdout=subprocess.PIPE, stderr=subprocess.PIPE, text=True, timeout=40)
            out = p.stdout.strip().split('\n')[0] if p.stdout.strip() else ''
        except Exception:
            out = ''
        cc['queries'] += 1
        want = 'sat' if r == z3.sat else 'unsat'
        if out == want:
            cc['agree'] += 1
        elif out in ('sat', 'unsat'):
            cc['disagree'] += 1
            cc['examples'].append({'obligation': ob.id if ob is not None else None, 'z3': want, 'cvc5': out})
            if ob is not None:
                ob.cross_disagree = True
        else:
            cc['inconclusive'] += 1

    def ob(self, oid, desc, functions=()):
        now = time.time()
        if self.obligations and self.obligations[-1].wall is None:
            self.obligations[-1].wall = now - self.obligations[-1].t_start
        o = Obligation(oid, desc, functions)
        self.obligations.append(o)
        return o

    # ---------------- findings
    def candidate(self, ob, role, text, scenario=None, confirm=None, model=None):
        """A solver counterexample for obligation `ob`.  `confirm()` replays it natively and returns
        (reproduced: bool, replay_path, native_detail).  Nothing is a VIOLATION unless it reproduced."""
        ob.role = role
        ob.detail = text
        reproduced, path, nd = (False, None, 'no native replay available')
        if confirm is not None:
            try:
                reproduced, path, nd = confirm()
            except Exception as e:  # infrastructure trouble must never become an alarm
                reproduced, path, nd = False, None, f'replay infrastructure error: {e!r}'
        if not reproduced:
            ob.status = 'unconfirmed'
            self.unconfirmed.append({'obligation': ob.id, 'role': role, 'text': text, 'native': nd})
            print(f'UNCONFIRMED property={self.prop} obligation={ob.id} role={role} :: {text} :: native: {nd}')
            return False
        ob.replay = path
        kf = self.known.get('findings', [])
        for k in kf:
            if k.get('property') == self.prop and k.get('role') == role:
                ob.status = 'known'
                self.known_hits.append(role)
                print(f'KNOWN-FINDING: property={self.prop} {role} :: {k.get("what", text)}')
                return True
        ob.status = 'violated'
        self.violations.append((role, text, path))
        print(f'VIOLATION property={self.prop} replay={path}')
        print(f'  obligation={ob.id} role={role} :: {text}')
        print(f'  native: {nd}')
        return True

    # ---------------- engine K: Kani proof harnesses compiled from /repo's current tree (cfg(kani) modules)
    def run_kani(self_, harness, timeout_s=1800, unwind=None):
        """run one `#[kani::proof]` harness of the crate; returns 'success' | 'failed' | 'inconclusive' (timeout, build trouble, out of memory)"""
        repo = os.environ.get('VERIF_REPO', '/repo')
        root = os.path.join(CACHE, 'kani')
        src = os.path.join(root, 'src' + ('' if repo == '/repo' else '-' + hashlib.sha256(repo.encode()).hexdigest()[:8]))
        os.makedirs(src, exist_ok=True)
        subprocess.check_call(['rsync', '-a', '--delete', '--exclude', 'target', '--exclude', '.git', repo.rstrip('/') + '/', src + '/'])
        env = dict(os.environ, CARGO_NET_OFFLINE='true')
        env.pop('RUSTFLAGS', None)
        import fcntl
        lockf = open(os.path.join(root, 'kani.lock'), 'w')
        fcntl.flock(lockf, fcntl.LOCK_EX)          # one Kani build/run at a time (shared scratch copy and target dir)
        subprocess.check_call(['rsync', '-a', '--delete', '--exclude', 'target', '--exclude', '.git', repo.rstrip('/') + '/', src + '/'])
        t0 = time.time()
        cmd = ['cargo', 'kani', '--no-default-features', '--harness', harness, '--target-dir', os.path.join(root, 'target')]
        try:
            p = subprocess.run(cmd, cwd=src, env=env, stdout=subprocess.PIPE, stderr=subprocess.STDOUT, text=True, timeout=timeout_s)
            out = p.stdout
        except subprocess.TimeoutExpired as e:
            out = (e.stdout or b'').decode('utf8', 'replace') if isinstance(e.stdout, bytes) else (e.stdout or '')
            subprocess.run(['pkill', '-x', 'cbmc'])
            res = 'inconclusive'
            self_.kani.append({'harness': harness, 'result': res, 'why': f'timeout {timeout_s}s', 'wall_s': round(time.time() - t0, 1)})
            return res
        m = re.search(r'\*\* (\d+) of (\d+) failed', out)
        vt = re.search(r'Verification Time: ([0-9.]+)s', out)
        if 'VERIFICATION:- SUCCESSFUL' in out and m and m.group(1) == '0':
            res = 'success'
        elif 'VERIFICATION:- FAILED' in out and 'Status: ERROR' not in out and m and int(m.group(1)) > 0:
            res = 'failed'
        else:
            res = 'inconclusive'
        failed = re.findall(r'Failed Checks: (.*)', out)[:3]
        self_.kani.append({'harness': harness, 'result': res, 'checks': int(m.group(2)) if m else None, 'failed_checks': failed,
                           'solver_s': float(vt.group(1)) if vt else None, 'wall_s': round(time.time() - t0, 1)})
        if vt:
            self_.solver_s += float(vt.group(1))
        return res

    # ---------------- native replay
    def replay_bin(self):
        if self._replay_bin:
            return self._replay_bin
        self._replay_bin = build_replay()
        return self._replay_bin

    def run_scenario(self, text, tag='s', strace=False, keep_work=False):
        """run a scenario natively; returns (path_of_scenario_file, list of (lineno, cmd, result))
        strace=True: additionally returns the syscall log (list of lines) as third element; keep_work: do not delete $DIR"""
        binp = self.replay_bin()
        d = os.path.join(os.environ.get('VERIF_EVIDENCE_DIR', os.path.join(VERIF, 'evidence')), 'replays')
        os.makedirs(d, exist_ok=True)
        h = hashlib.sha256(text.encode()).hexdigest()[:10]
        work = os.path.join(CACHE, 'replay-work', f'{self.prop}-{tag}-{h}-{os.getpid()}')
        shutil.rmtree(work, ignore_errors=True)
        os.makedirs(work, exist_ok=True)
        body = text.replace('$DIR', work)
        spath = os.path.join(d, f'{self.prop}-{tag}-{h}.scn')
        with open(spath, 'w') as fh:
            fh.write(f'# replay: {binp} <this file>   (built from /repo with --cfg fjall_verif)\n' + body)
        cmd = [binp, spath]
        tracef = os.path.join(work, 'strace.log')
        if strace:
            cmd = ['strace', '-f', '-o', tracef, '-e', 'trace=fsync,fdatasync,openat,write,pwrite64,ftruncate,close,unlink,unlinkat,rename,renameat', '-s', '24'] + cmd
        p = subprocess.run(cmd, stdout=subprocess.PIPE, stderr=subprocess.PIPE, text=True, timeout=300)
        trace_lines = open(tracef).read().split('\n') if strace and os.path.exists(tracef) else []
        self.last_work = work
        out = []
        for l in p.stdout.split('\n'):
            m = re.match(r'^R (\d+) (\S+) => (.*)$', l)
            if m:
                out.append((int(m.group(1)) - 1, m.group(2), m.group(3)))   # minus the header line
        if not keep_work:
            shutil.rmtree(work, ignore_errors=True)
        if p.returncode != 0:
            out.append((-1, 'CRASH', f'exit={p.returncode} stderr={p.stderr[-400:]}'))
        unknown = [r for _i, _c, r in out if r.startswith('err:UnknownCommand') or r.startswith('err:BadCmd')]
        if unknown:
            # a scenario the driver cannot execute proves nothing: never let it confirm a candidate
            raise RuntimeError(f'replay driver cannot execute the scenario: {unknown[:2]}')
        if strace:
            return spath, out, trace_lines
        return spath, out

    # ---------------- finish
    def finish(self, level='model_checking'):
        wall = time.time() - self.t0
        if self.obligations and self.obligations[-1].wall is None:
            self.obligations[-1].wall = time.time() - self.obligations[-1].t_start
        for o in self.obligations:
            if getattr(o, 'cross_disagree', False) and o.status == 'discharged':
                o.status = 'undecided'; o.detail = 'z3 and cvc5 disagree on a query of this obligation'
        n_ob = len(self.obligations)
        discharged = sum(1 for o in self.obligations if o.status == 'discharged')
        undecided = [o.id for o in self.obligations if o.status == 'undecided']
        cov = {
            'states': max(1, self.paths_total),
            'transitions': max(1, self.events_total),
            'traces_validated_against_impl': self.traces_validated,
            'samples': self.samples[:12] or [o.as_dict() for o in self.obligations[:3]],
            'obligations': n_ob,
            'discharged': discharged,
            'obligation_list': [o.as_dict() for o in self.obligations],
            'undecided': undecided,
            'functions_encoded': self.functions_encoded,
            'queries_discharged': self.queries,
            'solver_s': round(self.solver_s, 2),
            'mir': self.mir_info,
            **({'mir_dev_profile': self.mir_info_dev} if getattr(self, 'mir_info_dev', None) else {}),
            'known_findings_hit': self.known_hits,
            'unconfirmed_candidates': self.unconfirmed,
            'kani': self.kani,
            'explanation': 'states = feasible symbolic paths explored; transitions = environment events on them; '
                           'each obligation is a set of z3 validity queries over all paths of the named functions',
        }
        cov.update(self.extra)
        ev = {'property_id': self.prop, 'tier': self.tier, 'seed': self.seed, 'level': level, 'coverage': cov,
              'assumptions': self.assumptions, 'wall_s': round(wall, 2), 'violations': len(self.violations)}
        evdir = os.environ.get('VERIF_EVIDENCE_DIR', os.path.join(VERIF, 'evidence'))
        os.makedirs(evdir, exist_ok=True)
        with open(os.path.join(evdir, f'{self.prop}.json'), 'w') as fh:
            json.dump(ev, fh, indent=1, default=str)
        print(f'[{self.prop}] tier={self.tier} obligations={n_ob} discharged={discharged} known={len(self.known_hits)} '
              f'unconfirmed={len(self.unconfirmed)} undecided={len(undecided)} violations={len(self.violations)} '
              f'paths={self.paths_total} queries={self.queries} solver={self.solver_s:.1f}s wall={wall:.1f}s')
        # keep only the scenarios that reproduce a reported violation / known finding
        keep = {o.replay for o in self.obligations if o.status in ('violated', 'known') and getattr(o, 'replay', None)}
        keep |= {v[2] for v in self.violations if v[2]}
        rd = os.path.join(evdir, 'replays')
        if os.path.isdir(rd):
            for f in os.listdir(rd):
                fp = os.path.join(rd, f)
                if f.startswith(self.prop + '-') and fp not in keep:
                    try:
                        os.remove(fp)
                    except OSError:
                        pass
        if self.violations:
            return 1
        return 0


def load_known_findings():
    p = os.path.join(VERIF, 'known_findings.json')
    if os.path.exists(p):
        try:
            return json.load(open(p))
        except Exception:
            return {}
    return {}


def build_replay():
    """build /verif/replay against /repo's current working tree with the hooks on"""
    tgt = os.path.join(CACHE, 'replay-target')
    crate = os.path.join(VERIF, 'replay')
    env = dict(os.environ, CARGO_NET_OFFLINE='true', RUSTFLAGS='--cfg fjall_verif')
    import fcntl
    os.makedirs(CACHE, exist_ok=True)
    if os.path.realpath(REPO) != '/repo':
        # checks pointed at a scratch tree (sensitivity mutants, seeded changes): private copy of the driver crate
        tag = hashlib.sha256(os.path.realpath(REPO).encode()).hexdigest()[:10]
        crate2 = os.path.join(CACHE, f'replay-crate-{tag}')
        shutil.rmtree(crate2, ignore_errors=True)
        shutil.copytree(crate, crate2, ignore=shutil.ignore_patterns('target'))
        ct = open(os.path.join(crate2, 'Cargo.toml')).read().replace('path = "/repo"', f'path = "{os.path.realpath(REPO)}"')
        open(os.path.join(crate2, 'Cargo.toml'), 'w').write(ct)
        crate = crate2
        tgt = os.environ.get('VERIF_REPLAY_TARGET', os.path.join(CACHE, f'replay-target-{tag}'))
    lock = open(os.path.join(CACHE, 'replay.lock' if crate.endswith('/replay') else os.path.basename(crate) + '.lock'), 'w')
    fcntl.flock(lock, fcntl.LOCK_EX)
    try:
        p = subprocess.run(['cargo', 'build', '--offline', '--quiet', '--target-dir', tgt], cwd=crate,
                           env=env, stdout=subprocess.PIPE, stderr=subprocess.PIPE, text=True)
        if p.returncode != 0:
            raise RuntimeError('replay driver build failed: ' + p.stderr[-2000:])
    finally:
        fcntl.flock(lock, fcntl.LOCK_UN); lock.close()
    return os.path.join(tgt, 'debug', 'fjall-replay')


# ---------------------------------------------------------------- path helpers used by property modules
def ret_is_err(p):
    r = p.ret
    if isinstance(r, symex.EnumV):
        return z3.BoolVal(r.disc == 1) if isinstance(r.disc, int) else (r.disc == symex.bv(1))
    return None


def ret_is_ok(p):
    r = p.ret
    if isinstance(r, symex.EnumV):
        return z3.BoolVal(r.disc == 0) if isinstance(r.disc, int) else (r.disc == symex.bv(0))
    return None


def obj_name(e):
    return e.obj.name if isinstance(e.obj, symex.Obj) else ''
